#!/usr/bin/env python3
"""
extract.py — mini-translator: reads declarative parts of /repo/src (escape tables, entity
names, literals, id widths, name tables …) and writes lean/XotModel/Generated.lean.

Run on every check.  Each extractor asserts the source shape it expects; when the shape is
not found it raises ExtractError naming what it could not read (the tie to the source is
then broken and check.py goes into its search).  Output is only rewritten when its content
changes so that lake rebuilds only what depends on a changed constant.
"""
import json
import os
import re
import sys

REPO = os.environ.get("XOT_REPO", "/repo")
OUT = os.path.join(os.path.dirname(os.path.abspath(__file__)), "..", "lean", "XotModel", "Generated.lean")


class ExtractError(Exception):
    pass


def read(rel):
    with open(os.path.join(REPO, rel), encoding="utf-8") as f:
        return f.read()


def strip_comments(src):
    """Remove // line comments and /* */ block comments, leaving string/char literals intact."""
    out = []
    i = 0
    n = len(src)
    while i < n:
        c = src[i]
        if c == '"':
            j = i + 1
            while j < n and src[j] != '"':
                j += 2 if src[j] == "\\" else 1
            out.append(src[i:j + 1])
            i = j + 1
        elif c == "'" :
            # char literal or lifetime
            m = re.match(r"'(\\u\{[0-9a-fA-F]+\}|\\.|[^\\'])'", src[i:])
            if m:
                out.append(m.group(0))
                i += len(m.group(0))
            else:
                out.append(c)
                i += 1
        elif src.startswith("//", i):
            j = src.find("\n", i)
            i = n if j < 0 else j
        elif src.startswith("/*", i):
            j = src.find("*/", i)
            i = n if j < 0 else j + 2
        else:
            out.append(c)
            i += 1
    return "".join(out)


def fn_body(src, name, what):
    """Body (between the outermost braces) of `fn name`."""
    m = re.search(r"\bfn\s+" + re.escape(name) + r"\b", src)
    if not m:
        raise ExtractError(f"{what}: function `{name}` not found")
    i = src.find("{", m.end())
    # skip generics / where clauses: the first '{' after the signature's ')' … good enough
    depth = 0
    j = i
    n = len(src)
    while j < n:
        c = src[j]
        if c == '"':
            k = j + 1
            while k < n and src[k] != '"':
                k += 2 if src[k] == "\\" else 1
            j = k + 1
            continue
        if c == "'":
            m2 = re.match(r"'(\\u\{[0-9a-fA-F]+\}|\\.|[^\\'])'", src[j:])
            if m2:
                j += len(m2.group(0))
                continue
        if c == "{":
            depth += 1
        elif c == "}":
            depth -= 1
            if depth == 0:
                return src[i + 1:j]
        j += 1
    raise ExtractError(f"{what}: unbalanced braces in `{name}`")


def unescape(lit):
    """Decode the inside of a Rust char or string literal."""
    out = []
    i = 0
    while i < len(lit):
        c = lit[i]
        if c == "\\":
            d = lit[i + 1]
            if d == "u":
                m = re.match(r"\\u\{([0-9a-fA-F_]+)\}", lit[i:])
                out.append(chr(int(m.group(1).replace("_", ""), 16)))
                i += len(m.group(0))
                continue
            if d == "x":
                out.append(chr(int(lit[i + 2:i + 4], 16)))
                i += 4
                continue
            out.append({"n": "\n", "t": "\t", "r": "\r", "0": "\0", "\\": "\\", "'": "'", '"': '"'}[d])
            i += 2
        else:
            out.append(c)
            i += 1
    return "".join(out)


def lean_char(c):
    o = ord(c)
    if c == "'":
        return "'\\''"
    if c == "\\":
        return "'\\\\'"
    if c == "\t":
        return "'\\t'"
    if c == "\n":
        return "'\\n'"
    if c == "\r":
        return "'\\r'"
    if 0x20 <= o < 0x7F:
        return f"'{c}'"
    if o <= 0xFFFF and not (0xD800 <= o <= 0xDFFF):
        return "'\\u%04x'" % o
    return f"(Char.ofNat 0x{o:x})"


def lean_str(s):
    return "[" + ",".join(lean_char(c) for c in s) + "]"


CHAR = r"'((?:\\u\{[0-9a-fA-F]+\}|\\.|[^\\'])+)'"


def escape_arms(body, what):
    """`'c' [if guard] => { … push_str("…") … }` arms → [(char, guard or None, string)]."""
    arms = []
    for m in re.finditer(CHAR + r"\s*(?:if\s+([^=]+?)\s*)?=>\s*\{?", body):
        ch = unescape(m.group(1))
        guard = m.group(2)
        # arm text: up to the next arm start
        rest = body[m.end():]
        nxt = re.search(r"(?:" + CHAR + r"|_)\s*(?:if\s+[^=]+?\s*)?=>", rest)
        arm = rest[: nxt.start()] if nxt else rest
        ps = re.findall(r'push_str\(\s*"((?:\\.|[^"\\])*)"\s*\)', arm)
        arms.append((ch, guard.strip() if guard else None, [unescape(p) for p in ps], arm))
    if not arms:
        raise ExtractError(f"{what}: no `'c' => …` arms found")
    return arms


def table(arms, what):
    rows = []
    for ch, guard, ps, _arm in arms:
        if guard is not None:
            continue
        if len(ps) != 1:
            raise ExtractError(f"{what}: arm for {ch!r} does not consist of one push_str")
        rows.append((ch, ps[0]))
    return rows


def lean_table(name, rows):
    body = ", ".join(f"({lean_char(c)}, {lean_str(s)})" for c, s in rows)
    return f"def {name} : List (Char × List Char) :=\n  [{body}]\n"


def extract_entity(defs, consts):
    src = strip_comments(read("src/entity.rs"))
    # serialize_attribute
    rows = table(escape_arms(fn_body(src, "serialize_attribute", "attrEscapes"), "attrEscapes"), "attrEscapes")
    defs.append(lean_table("attrEscapes", rows))
    consts["attrEscapes"] = rows
    # serialize_text
    arms = escape_arms(fn_body(src, "serialize_text", "textEscapes"), "textEscapes")
    rows = table(arms, "textEscapes")
    if any(c == ">" for c, _ in rows):
        raise ExtractError("textEscapes: unguarded '>' arm (expected `'>' if !unescaped_gt` / `'>' if unescaped_gt`)")
    defs.append(lean_table("textEscapes", rows))
    consts["textEscapes"] = rows
    gt = [a for a in arms if a[0] == ">" and a[1] is not None]
    esc = [a for a in gt if re.fullmatch(r"!\s*unescaped_gt", a[1])]
    raw = [a for a in gt if re.fullmatch(r"unescaped_gt", a[1])]
    if len(esc) != 1 or len(raw) != 1 or len(esc[0][2]) != 1:
        raise ExtractError("textGtEscape: expected exactly the arms `'>' if !unescaped_gt` and `'>' if unescaped_gt`")
    defs.append(f"def textGtEscape : List Char := {lean_str(esc[0][2][0])}\n")
    consts["textGtEscape"] = esc[0][2][0]
    # the look-back arm must escape with the same string and test for two ']'
    rawarm = raw[0][3]
    if raw[0][2] != [esc[0][2][0]] or rawarm.count("Some(']')") != 2 or "rev().take(2)" not in rawarm.replace(" ", "").replace("\n", ""):
        raise ExtractError("serialize_text: the `unescaped_gt` look-back arm has an unexpected shape")
    # parse_content named entities
    body = fn_body(src, "parse_content", "namedEntities")
    ents = re.findall(r'"([A-Za-z0-9]+)"\s*=>\s*result\.push\(\s*' + CHAR + r"\s*\)", body)
    if not ents:
        raise ExtractError("namedEntities: no `\"name\" => result.push('c')` arms in parse_content")
    rows = [(n, unescape(c)) for n, c in ents]
    defs.append("def namedEntities : List (List Char × Char) :=\n  [" + ", ".join(f"({lean_str(n)}, {lean_char(c)})" for n, c in rows) + "]\n")
    consts["namedEntities"] = rows
    # cdata literals
    body = fn_body(src, "serialize_cdata", "cdata literals")
    ps = [unescape(p) for p in re.findall(r'push_str\(\s*"((?:\\.|[^"\\])*)"\s*\)', body)]
    if len(ps) != 4:
        raise ExtractError(f"cdata literals: expected 4 push_str literals in serialize_cdata (open, ]]> split, CR split, close), found {len(ps)}")
    arms = {m.group(1) for m in re.finditer(r"'((?:\\.|[^\\'])+)'\s*=>", body)}
    if arms != {"]", ">", "\\r"}:
        raise ExtractError(f"serialize_cdata: expected exactly the arms ']' '>' '\\r' and _, found {sorted(arms)}")
    defs.append(f"def cdataOpen : List Char := {lean_str(ps[0])}\n")
    defs.append(f"def cdataSplit : List Char := {lean_str(ps[1])}\n")
    defs.append(f"def cdataCr : List Char := {lean_str(ps[2])}\n")
    defs.append(f"def cdataClose : List Char := {lean_str(ps[3])}\n")
    consts["cdata"] = ps


def extract_html_escapes(defs, consts):
    src = strip_comments(read("src/output/html5_serializer.rs"))
    for fn, name in (("serialize_text_html", "htmlTextEscapes"), ("serialize_attribute_html", "htmlAttrEscapes")):
        rows = table(escape_arms(fn_body(src, fn, name), name), name)
        defs.append(lean_table(name, rows))
        consts[name] = rows


# ---------------------------------------------------------------------------------------------
# Interning (C08): id widths, built-in registrations of `Xot::new`, clone derivations

ID_TYPES = (("nameIdBits", "src/id/name.rs", "NameId"),
            ("namespaceIdBits", "src/id/namespace.rs", "NamespaceId"),
            ("prefixIdBits", "src/id/prefix.rs", "PrefixId"))
INT_BITS = {"u8": 8, "u16": 16, "u32": 32, "u64": 64, "u128": 128, "usize": 64}
LOOKUP_TABLES = {"NamespaceLookup": "namespace", "PrefixLookup": "prefix", "NameLookup": "name"}
# field of `struct Xot` -> (public accessor in nameaccess.rs, table)
BUILTIN_FIELDS = (("no_namespace_id", "no_namespace", "namespace"),
                  ("empty_prefix_id", "empty_prefix", "prefix"),
                  ("xml_namespace_id", "xml_namespace", "namespace"),
                  ("xml_prefix_id", "xml_prefix", "prefix"),
                  ("xml_space_id", "xml_space_name", "name"),
                  ("xml_id_id", "xml_id_name", "name"))
STRLIT = r'"((?:\\.|[^"\\])*)"'


def impl_block(src, ty, containing_fn, what):
    """Text of the inherent `impl <ty> { … }` block that defines `fn <containing_fn>`."""
    for m in re.finditer(r"\bimpl\s+" + re.escape(ty) + r"\s*\{", src):
        depth = 0
        j = m.end() - 1
        n = len(src)
        while j < n:
            c = src[j]
            if c == '"':
                k = j + 1
                while k < n and src[k] != '"':
                    k += 2 if src[k] == "\\" else 1
                j = k + 1
                continue
            if c == "'":
                m2 = re.match(r"'(\\u\{[0-9a-fA-F]+\}|\\.|[^\\'])'", src[j:])
                if m2:
                    j += len(m2.group(0))
                    continue
            if c == "{":
                depth += 1
            elif c == "}":
                depth -= 1
                if depth == 0:
                    break
            j += 1
        block = src[m.end():j]
        if re.search(r"\bfn\s+" + re.escape(containing_fn) + r"\b", block):
            return block
    raise ExtractError(f"{what}: no `impl {ty} {{ … }}` block defining `fn {containing_fn}` found")


def derives_of(src, ty, what):
    """Traits in the `#[derive(…)]` attributes directly above `struct <ty>`."""
    m = re.search(r"((?:#\[[^\]]*\]\s*)*)(?:pub(?:\s*\([^)]*\))?\s+)?struct\s+" + re.escape(ty) + r"\b", src)
    if not m:
        raise ExtractError(f"{what}: `struct {ty}` not found")
    out = []
    for d in re.findall(r"#\[\s*derive\s*\(([^)]*)\)\s*\]", m.group(1)):
        out.extend(t.strip() for t in d.split(",") if t.strip())
    return out


def extract_ids(defs, consts):
    # --- widths -------------------------------------------------------------------------------
    for lean_name, rel, ty in ID_TYPES:
        src = strip_comments(read(rel))
        m = re.search(r"\bstruct\s+" + ty + r"\s*\(\s*(?:pub(?:\s*\([^)]*\))?\s+)?(\w+)\s*\)\s*;", src)
        if not m:
            raise ExtractError(f"{lean_name}: `struct {ty}(<integer type>);` not found in {rel}")
        field_ty = m.group(1)
        if field_ty not in INT_BITS:
            raise ExtractError(f"{lean_name}: field type `{field_ty}` of `struct {ty}` in {rel} is not an unsigned integer type")
        mi = re.search(r"\bimpl\s+IdIndex\s*<\s*" + ty + r"\s*>\s*for\s+" + ty + r"\s*\{", src)
        if not mi:
            raise ExtractError(f"{lean_name}: `impl IdIndex<{ty}> for {ty}` not found in {rel}")
        to_id = re.sub(r"\s+", " ", fn_body(src[mi.start():], "to_id", lean_name)).strip()
        mc = re.fullmatch(ty + r" ?\( ?index as (\w+) ?\)", to_id)
        if not mc:
            raise ExtractError(f"{lean_name}: body of `{ty}::to_id` in {rel} is `{to_id}`, expected `{ty}(index as uN)` (an unchecked cast; anything else needs a new model of `toId`)")
        if mc.group(1) != field_ty:
            raise ExtractError(f"{lean_name}: `struct {ty}({field_ty})` but `to_id` casts `index as {mc.group(1)}` in {rel}: the two widths disagree")
        from_id = re.sub(r"\s+", " ", fn_body(src[mi.start():], "from_id", lean_name)).strip()
        if not re.fullmatch(r"id ?\. ?0 as usize", from_id):
            raise ExtractError(f"{lean_name}: body of `{ty}::from_id` in {rel} is `{from_id}`, expected `id.0 as usize`")
        if "Clone" not in derives_of(src, ty, lean_name) or "Copy" not in derives_of(src, ty, lean_name):
            raise ExtractError(f"{lean_name}: `struct {ty}` in {rel} no longer derives Clone and Copy")
        defs.append(f"/-- `struct {ty}({field_ty})`, `to_id`: `index as {mc.group(1)}` ({rel}). -/\ndef {lean_name} : Nat := {INT_BITS[field_ty]}\n")
        consts[lean_name] = INT_BITS[field_ty]
    # --- clone is derived (C08_clone / C12 rest on field-wise clones of Vec and HashMap) ------------
    idmap = strip_comments(read("src/id/idmap.rs"))
    if "Clone" not in derives_of(idmap, "IdMap", "idMapClone"):
        raise ExtractError("idMapClone: `struct IdMap` in src/id/idmap.rs does not `#[derive(Clone)]` (a hand-written Clone needs a model)")
    mf = re.search(r"\bstruct\s+IdMap\b[^{;]*\{([^}]*)\}", idmap)
    fields = re.sub(r"\s+", "", mf.group(1)).rstrip(",") if mf else None
    if fields != "by_id:Vec<V>,by_value:HashMap<V,K>":
        raise ExtractError(f"idMapFields: fields of `struct IdMap` in src/id/idmap.rs are `{fields}`, expected `by_id:Vec<V>,by_value:HashMap<V,K>`")
    if "Clone" not in derives_of(strip_comments(read("src/id/name.rs")), "Name", "nameClone"):
        raise ExtractError("nameClone: `struct Name` in src/id/name.rs does not derive Clone")
    xotdata = strip_comments(read("src/xotdata.rs"))
    if "Clone" not in derives_of(xotdata, "Xot", "xotClone"):
        raise ExtractError("xotClone: `struct Xot` in src/xotdata.rs does not `#[derive(Clone)]`")
    defs.append("/-- `IdMap`, `Name` and `Xot` all `#[derive(Clone)]`: a clone is the field-wise clone. -/\ndef interningCloneIsDerived : Bool := true\n")
    consts["interningCloneIsDerived"] = True
    # --- built-in registrations of Xot::new -------------------------------------------------------
    what = "builtinRegistrations"
    body = fn_body(impl_block(xotdata, "Xot", "new", what), "new", what)
    tables = {}
    for m in re.finditer(r"\blet\s+mut\s+(\w+)\s*=\s*(\w+)\s*::\s*new\s*\(\s*\)\s*;", body):
        if m.group(2) in LOOKUP_TABLES:
            tables[m.group(1)] = LOOKUP_TABLES[m.group(2)]
    if sorted(tables.values()) != ["name", "namespace", "prefix"]:
        raise ExtractError(f"{what}: expected one `let mut x = NamespaceLookup::new()`, `PrefixLookup::new()` and `NameLookup::new()` each in `Xot::new`, found {tables}")
    regs = []
    n_calls = len(re.findall(r"\.\s*get_id_mut\s*\(", body))
    call = re.compile(r"\blet\s+(\w+)\s*=\s*(\w+)\s*\.\s*get_id_mut\s*\(\s*(?:" + STRLIT +
                      r"|&\s*Name\s*::\s*new\s*\(\s*" + STRLIT + r"\s*,\s*(\w+)\s*\))\s*\)\s*;")
    for m in call.finditer(body):
        var, tvar, lit, nlit, nsvar = m.groups()
        if tvar not in tables:
            raise ExtractError(f"{what}: `{tvar}.get_id_mut(…)` in `Xot::new`: `{tvar}` is not one of the lookup tables {sorted(tables)}")
        t = tables[tvar]
        if (t == "name") != (nlit is not None):
            raise ExtractError(f"{what}: `let {var} = {tvar}.get_id_mut(…)`: argument shape does not fit the {t} table")
        if nsvar is not None and nsvar not in [r[1] for r in regs if r[0] == "namespace"]:
            raise ExtractError(f"{what}: `Name::new(\"{nlit}\", {nsvar})`: `{nsvar}` is not the result of an earlier namespace registration")
        regs.append((t, var, unescape(lit if lit is not None else nlit), nsvar))
    if len(regs) != n_calls:
        raise ExtractError(f"{what}: `Xot::new` contains {n_calls} get_id_mut calls but only {len(regs)} have the shape `let v = table.get_id_mut(\"…\" | &Name::new(\"…\", ns_var));`")
    ml = re.search(r"\bXot\s*\{(.*)\}\s*$", body, flags=re.S)
    if not ml:
        raise ExtractError(f"{what}: `Xot::new` does not end in a `Xot {{ … }}` literal")
    lit_fields = [re.sub(r"\s+", " ", f).strip() for f in ml.group(1).split(",") if f.strip()]
    nameaccess = strip_comments(read("src/nameaccess.rs"))
    for field, accessor, t in BUILTIN_FIELDS:
        mine = [r for r in regs if r[1] == field]
        if len(mine) != 1 or mine[0][0] != t:
            raise ExtractError(f"{what}: expected exactly one `let {field} = <{t} table>.get_id_mut(…)` in `Xot::new`")
        if field not in lit_fields:
            raise ExtractError(f"{what}: field `{field}` is not initialised by shorthand from the variable `{field}` in the `Xot {{ … }}` literal of `Xot::new`")
        acc = re.sub(r"\s+", "", fn_body(nameaccess, accessor, what))
        if acc != f"self.{field}":
            raise ExtractError(f"{what}: accessor `{accessor}` in src/nameaccess.rs returns `{acc}`, expected `self.{field}`")
    for tvar, t in tables.items():
        want = {"namespace": "namespace_lookup", "prefix": "prefix_lookup", "name": "name_lookup"}[t]
        if tvar != want or want not in lit_fields:
            raise ExtractError(f"{what}: the {t} table of `Xot::new` is `{tvar}`; expected variable and shorthand field `{want}`")
    extra = [r[1] for r in regs if r[1] not in [f for f, _a, _t in BUILTIN_FIELDS]]
    if extra:
        raise ExtractError(f"{what}: `Xot::new` registers values bound to {extra}, which have no known accessor (extend BUILTIN_FIELDS and the model)")
    defs.append("inductive RegTable where\n  | namespace | prefix | name\n  deriving DecidableEq, Repr\n")
    defs.append("/-- One `let field = table.get_id_mut(value)` of `Xot::new`; for the name table the value is\n    `Name::new(value, nsField)`. -/\n"
                "structure BuiltinReg where\n  table : RegTable\n  field : List Char\n  value : List Char\n  nsField : Option (List Char)\n  deriving DecidableEq, Repr\n")
    rows = []
    for t, var, val, nsvar in regs:
        ns = "none" if nsvar is None else f"some {lean_str(nsvar)}"
        rows.append(f"  ⟨.{t}, {lean_str(var)}, {lean_str(val)}, {ns}⟩")
    defs.append("/-- The `get_id_mut` calls of `Xot::new` (src/xotdata.rs), in source order. -/\n"
                "def builtinRegistrations : List BuiltinReg := [\n" + ",\n".join(rows) + "]\n")
    consts["builtinRegistrations"] = [[t, var, val, nsvar] for t, var, val, nsvar in regs]
    xml_ns = [r[2] for r in regs if r[1] == "xml_namespace_id"][0]
    defs.append(f"/-- The literal registered as `xml_namespace_id`. -/\ndef xmlNs : List Char := {lean_str(xml_ns)}\n")
    consts["xmlNs"] = xml_ns




def lean_strs(xs):
    return "[" + ", ".join(lean_str(x) for x in xs) + "]"


def checked_write_calls(body, where):
    """Every `write_all(…)` call of a Write-based serialisation function, in source order, as the text
    of its argument.  Each call must hand the writer's `io::Error` to the caller with `?` (it becomes
    `Error::Io` through `From<io::Error>`): the model threads a writer that may refuse any call and
    answers `.err .io` there.  `.unwrap()` / `.expect(…)` on the result is the defect repaired in
    b398cef (a failing writer made the call panic) coming back; anything else is a shape the model
    does not transcribe."""
    calls = []
    for m in re.finditer(r"\bwrite_all\s*\(", body):
        i = m.end() - 1
        depth = 0
        j = i
        n = len(body)
        while j < n:
            c = body[j]
            if c == '"':
                k = j + 1
                while k < n and body[k] != '"':
                    k += 2 if body[k] == "\\" else 1
                j = k + 1
                continue
            if c == "(":
                depth += 1
            elif c == ")":
                depth -= 1
                if depth == 0:
                    break
            j += 1
        else:
            raise ExtractError(f"{where}: unbalanced `write_all(`")
        arg = squeeze_ws(body[i + 1:j])
        tail = body[j + 1:].lstrip()
        if re.match(r"\.\s*(unwrap|expect|unwrap_unchecked)\s*\(", tail):
            raise ExtractError(
                f"{where}: `write_all({arg})` is followed by `{tail[:tail.find('(')].strip()}(…)`: a writer that fails makes the call "
                "PANIC instead of returning Err(Error::Io(..)) — the defect repaired in b398cef (C16/C19 "
                "`write-panics-when-the-writer-fails`) is back; the model answers `.err .io` at a refused write")
        if not re.match(r"\?\s*;", tail):
            raise ExtractError(
                f"{where}: `write_all({arg})` is not of the form `w.write_all(…)?;` (found `{tail[:24]!r}` after it): "
                "the model propagates the writer's error at every call, in call order")
        calls.append(arg)
    return calls


def squeeze_ws(x):
    """Remove white space outside string literals."""
    out = []
    i = 0
    n = len(x)
    while i < n:
        c = x[i]
        if c == '"':
            j = i + 1
            while j < n and x[j] != '"':
                j += 2 if x[j] == "\\" else 1
            out.append(x[i:j + 1])
            i = j + 1
        elif c.isspace():
            i += 1
        else:
            out.append(c)
            i += 1
    return "".join(out)


# The statement order the threaded model (`writeLoopW` + the `…StepCalls` functions, `declCalls`, `doctypeCalls`,
# `serializeXmlWriteW`, `serializeHtmlWriteNW`) transcribes: which `write_all` happens where, each one `?`-propagated.
SERIALIZE_NODE_SHAPE = ('letdata=self.render_output(node,&output)?;ifdata.space{w.write_all(b"%s")?;}'
                        'w.write_all(data.text.as_bytes())?;Ok(())')
SERIALIZE_SHAPE = "for(node,output)inoutputs{self.serialize_node(w,node,output)?;}Ok(())"
SERIALIZE_PRETTY_LOOP = ('for(node,output)inoutputs{let(indentation,newline)=pretty.prettify(node,&output);'
                         'ifindentation>0{w.write_all("%s".repeat(indentation*%d).as_bytes())?;}'
                         'self.serialize_node(w,node,output)?;ifnewline{w.write_all(b"%s")?;}}Ok(())')


def check_serializer_write_shapes(src, what, space_lit, indent_lit, width, newline_lit):
    """`serialize`, `serialize_pretty`, `serialize_node` of one serialiser: the exact order of the
    `write_all` calls and of the `render_output` call between them."""
    for fn in ("serialize", "serialize_pretty", "serialize_node"):
        checked_write_calls(fn_body(src, fn, what), f"{what}::{fn}")
    got = squeeze_ws(fn_body(src, "serialize_node", what))
    want = SERIALIZE_NODE_SHAPE % space_lit
    if got != want:
        raise ExtractError(f"{what}::serialize_node: body is `{got}`, expected `{want}` (render first, then the token space, then the token text)")
    got = squeeze_ws(fn_body(src, "serialize", what))
    if got != SERIALIZE_SHAPE:
        raise ExtractError(f"{what}::serialize: body is `{got}`, expected `{SERIALIZE_SHAPE}`")
    got = squeeze_ws(fn_body(src, "serialize_pretty", what))
    want = SERIALIZE_PRETTY_LOOP % (indent_lit, width, newline_lit)
    if not got.endswith(want):
        raise ExtractError(f"{what}::serialize_pretty: the loop is not `{want}` (indentation, serialize_node, newline; found `{got[-len(want):]}`)")


def extract_xml_render(defs, consts):
    """String literals of XmlSerializer::render_output / serialize_pretty (output/xml_serializer.rs)
    and of the declaration / doctype writers (output/xml.rs).  A `format!` literal becomes the
    list of its pieces between `{}` placeholders (model: `fmt pieces args`)."""
    src = strip_comments(read("src/output/xml_serializer.rs"))
    body = fn_body(src, "render_output", "xml render literals")
    lits = []
    for m in re.finditer(r'format!\(\s*"((?:\\.|[^"\\])*)"|"((?:\\.|[^"\\])*)"\s*\.to_string\(\)', body):
        if m.group(1) is not None:
            lits.append(("fmt", unescape(m.group(1))))
        else:
            lits.append(("lit", unescape(m.group(2))))
    names = [("litMissingPrefixNoNamespace", "lit", 0), ("fmtStartTagOpen", "fmt", 1), ("litEmptyTagClose", "lit", 0), ("litTagClose", "lit", 0),
             ("fmtEndTag", "fmt", 1), ("litEmptyEndTag", "lit", 0), ("litXmlPrefix", "lit", 0),
             ("fmtXmlnsDefault", "fmt", 1), ("fmtXmlnsPrefix", "fmt", 2), ("fmtAttribute", "fmt", 2),
             ("fmtComment", "fmt", 1), ("fmtPiData", "fmt", 2), ("fmtPi", "fmt", 1)]
    if len(lits) != len(names):
        raise ExtractError(f"xml render literals: expected {len(names)} format!/to_string literals in render_output, found {len(lits)}: {lits}")
    for (name, kind, holes), (k, text) in zip(names, lits):
        if k != kind or (kind == "fmt" and text.count("{}") != holes) or ("{" in text.replace("{}", "")):
            raise ExtractError(f"xml render literals: {name}: unexpected literal {text!r}")
        if name == "litMissingPrefixNoNamespace" and text != "":
            # the model reports this error as MissingPrefix of the no-namespace id, whose URI is ""
            raise ExtractError(f"xml render literals: the StartTagOpen arm's MissingPrefix payload is {text!r}, expected the empty string")
        if kind == "fmt":
            defs.append(f"def {name} : List (List Char) := {lean_strs(text.split('{}'))}\n")
        else:
            defs.append(f"def {name} : List Char := {lean_str(text)}\n")
        consts[name] = text
    body = fn_body(src, "serialize_pretty", "indentation width")
    m = re.search(r'"((?:\\.|[^"\\])*)"\s*\.repeat\(\s*indentation\s*\*\s*(\d+)\s*\)', body)
    nl = re.findall(r'write_all\(\s*b"((?:\\.|[^"\\])*)"\s*\)', body)
    if not m or len(nl) != 1:
        raise ExtractError("serialize_pretty: expected `\" \".repeat(indentation * N)` and one `write_all(b\"…\")`")
    defs.append(f"def indentUnit : List Char := {lean_str(unescape(m.group(1)))}\n")
    defs.append(f"def indentWidth : Nat := {int(m.group(2))}\n")
    defs.append(f"def prettyNewline : List Char := {lean_str(unescape(nl[0]))}\n")
    consts["indent"] = [unescape(m.group(1)), int(m.group(2)), unescape(nl[0])]
    body = fn_body(src, "serialize_node", "token space")
    sp = re.findall(r'write_all\(\s*b"((?:\\.|[^"\\])*)"\s*\)', body)
    if len(sp) != 1:
        raise ExtractError("serialize_node: expected one `write_all(b\"…\")` literal (the token space)")
    defs.append(f"def tokenSpace : List Char := {lean_str(unescape(sp[0]))}\n")
    consts["tokenSpace"] = unescape(sp[0])
    # every write of the three loops hands the writer's error on with `?`, in the order the model threads them
    check_serializer_write_shapes(src, "XmlSerializer", sp[0], m.group(1), int(m.group(2)), nl[0])
    # output/pretty.rs element_space: the xml:space keywords
    psrc = strip_comments(read("src/output/pretty.rs"))
    body = fn_body(psrc, "element_space", "spaceKeywords")
    kw = dict((v, unescape(k)) for k, v in re.findall(r'Some\(\s*"((?:\\.|[^"\\])*)"\s*\)\s*=>\s*Space::(\w+)', body))
    if set(kw) != {"Preserve", "Default"} or "xml_space_name" not in body:
        raise ExtractError(f"element_space: expected arms Some(\"…\") => Space::Preserve / Space::Default on xml_space_name, found {kw}")
    defs.append(f"def spacePreserve : List Char := {lean_str(kw['Preserve'])}\n")
    defs.append(f"def spaceDefault : List Char := {lean_str(kw['Default'])}\n")
    consts["spaceKeywords"] = [kw["Preserve"], kw["Default"]]
    # output/xml.rs: the two `serialize` writers, told apart by their first literal
    xsrc = strip_comments(read("src/output/xml.rs"))
    bodies = []
    for m in re.finditer(r"\bfn\s+serialize\b", xsrc):
        bodies.append(fn_body(xsrc[m.start():], "serialize", "xml.rs writers"))
    if len(bodies) != 2:
        raise ExtractError(f"output/xml.rs: expected 2 `fn serialize` (Declaration, DocType), found {len(bodies)}")
    wl = [[unescape(x) for x in re.findall(r'b"((?:\\.|[^"\\])*)"', b)] for b in bodies]
    dnames = ["declOpen", "declEncodingOpen", "declEncodingClose", "declStandaloneOpen", "declYes", "declNo",
              "declStandaloneClose", "declClose"]
    tnames = ["doctypeOpen", "doctypePublicOpen", "doctypePublicSep", "doctypePublicClose", "doctypeSystemOpen",
              "doctypeSystemClose", "doctypeClose"]
    if len(wl[0]) != len(dnames) or not wl[0][0].startswith("<?xml"):
        raise ExtractError(f"Declaration::serialize: unexpected literals {wl[0]}")
    if len(wl[1]) != len(tnames) or not wl[1][0].startswith("<!DOCTYPE"):
        raise ExtractError(f"DocType::serialize: unexpected literals {wl[1]}")
    for n, v in list(zip(dnames, wl[0])) + list(zip(tnames, wl[1])):
        defs.append(f"def {n} : List Char := {lean_str(v)}\n")
    consts["xmlDeclaration"] = wl[0]
    consts["doctype"] = wl[1]
    # the `write_all` calls of the two writers, one per piece, in this order (model: `Declaration.calls`,
    # `DocType.calls`), each `?`-propagated
    lit = lambda a: re.sub(r'b"((?:\\.|[^"\\])*)"', "L", a)
    dcalls = [lit(a) for a in checked_write_calls(bodies[0], "Declaration::serialize")]
    want = ["L", "L", "encoding.as_bytes()", "L", "L", "ifstandalone{L}else{L}", "L", "L"]
    if dcalls != want:
        raise ExtractError(f"Declaration::serialize: write_all calls are {dcalls}, expected {want}")
    tcalls = [lit(a) for a in checked_write_calls(bodies[1], "DocType::serialize")]
    want = ["L", "name.as_bytes()", "L", "public.as_bytes()", "L", "system.as_bytes()", "L", "L", "system.as_bytes()", "L", "L"]
    if tcalls != want:
        raise ExtractError(f"DocType::serialize: write_all calls are {tcalls}, expected {want}")
    # serialize.rs: declaration, then the doctype block (which can fail before it writes), then the body
    zsrc = strip_comments(read("src/serialize.rs"))
    body = squeeze_ws(fn_body(zsrc, "serialize_xml_write_with_normalizer", "xml write entry point"))
    if "write_all(" in body:
        raise ExtractError("serialize_xml_write_with_normalizer: writes directly (`write_all`), expected only declaration.serialize / doctype.serialize / serializer.serialize(_pretty)")
    order = ["ifletSome(declaration)=parameters.declaration{declaration.serialize(w)?;}",
             "ifletSome(doctype)=parameters.doctype{",
             "letname=fullname_serializer.element_fullname(self.get_element_name(node))?;doctype.serialize(name.as_ref(),w)?;}",
             "letoutputs=gen_outputs(self,node);",
             "ifletSome(indentation)=parameters.indentation{serializer.serialize_pretty(w,outputs,&indentation.suppress)?;}else{serializer.serialize(w,outputs)?;}Ok(())"]
    at = 0
    for piece in order:
        k = body.find(piece, at)
        if k < 0:
            raise ExtractError(f"serialize_xml_write_with_normalizer: `{piece}` not found (in this order: declaration, doctype, body; every step `?`-propagated)")
        at = k + len(piece)


def extract_unpretty(defs, consts):
    """C18: which characters `is_whitespace` accepts and the xml:space keyword of
    `in_preserve_space` (src/unpretty.rs)."""
    src = strip_comments(read("src/unpretty.rs"))
    body = fn_body(src, "is_whitespace", "whitespaceChars")
    m = re.search(r"\.chars\(\)\s*\.all\(\s*\|\s*(\w+)\s*\|(.*)\)\s*$", body, flags=re.S)
    if not m:
        raise ExtractError("whitespaceChars: `is_whitespace` is not of the form `text.chars().all(|c| …)`")
    var, pred = m.group(1), m.group(2).strip()
    mm = re.fullmatch(r"matches!\(\s*" + re.escape(var) + r"\s*,(.*)\)", pred, flags=re.S)
    if mm:
        alts = mm.group(1)
        chars = [unescape(c) for c in re.findall(CHAR, alts)]
        rest = re.sub(CHAR, "", alts)
        if not chars or re.sub(r"[\s|]", "", rest) != "" or rest.count("|") != len(chars) - 1:
            raise ExtractError(f"whitespaceChars: the matches! pattern `{alts.strip()}` is not an alternation of char literals")
        if any(len(c) != 1 for c in chars):
            raise ExtractError("whitespaceChars: a literal of the matches! pattern is not a single character")
        unicode_ws = False
    elif re.fullmatch(re.escape(var) + r"\s*\.\s*is_whitespace\(\s*\)", pred):
        chars = []
        unicode_ws = True
    else:
        raise ExtractError(f"whitespaceChars: predicate `{pred}` is neither a matches! of char literals nor `c.is_whitespace()`")
    defs.append("/-- `unpretty::is_whitespace` uses `char::is_whitespace` (all of Unicode White_Space). -/\n"
                f"def whitespaceUnicode : Bool := {'true' if unicode_ws else 'false'}\n")
    defs.append(f"def whitespaceChars : List Char := {lean_str(''.join(chars))}\n")
    consts["whitespaceUnicode"] = unicode_ws
    consts["whitespaceChars"] = chars
    # the significance test must be the negation of the same predicate
    sig = re.sub(r"\s+", "", fn_body(src, "is_significant_text_node", "is_significant_text_node"))
    if "!is_whitespace(text)" not in sig:
        raise ExtractError("is_significant_text_node: expected `!is_whitespace(text)`")
    body = fn_body(src, "in_preserve_space", "preserveKeyword")
    lits = re.findall(r'==\s*"((?:\\.|[^"\\])*)"', body)
    if len(lits) != 1:
        raise ExtractError(f"preserveKeyword: expected exactly one `== \"…\"` comparison in in_preserve_space, found {len(lits)}")
    if "xml_space_name()" not in body or not re.search(r"for\s+\w+\s+in\s+xot\.ancestors\(", body):
        raise ExtractError("in_preserve_space: expected a walk over `xot.ancestors(node)` looking up `xml_space_name()`")
    kw = unescape(lits[0])
    defs.append(f"def preserveKeyword : List Char := {lean_str(kw)}\n")
    consts["preserveKeyword"] = kw
    # collection first, removal second
    top = re.sub(r"\s+", "", fn_body(src, "remove_insignificant_whitespace", "remove_insignificant_whitespace"))
    if not (top.index("xot.descendants(node)") < top.index("to_remove.push(") < top.index("xot.remove(node)")):
        raise ExtractError("remove_insignificant_whitespace: expected collect-then-remove over xot.descendants(node)")




def extract_html5(defs, consts):
    """C19: namespace constants and element-name tables of output/html5elements.rs, the shape of its
    predicates, the literals of Html5Serializer::render_output / serialize_pretty / serialize_node
    (output/html5_serializer.rs) and the doctype written by serialize.rs."""
    src = strip_comments(read("src/output/html5elements.rs"))
    for rust, lean in (("XHTML_NS", "xhtmlNs"), ("MATHML_NS", "mathmlNs"), ("SVG_NS", "svgNs")):
        m = re.search(r"\bconst\s+" + rust + r"\s*:\s*&str\s*=\s*" + STRLIT + r"\s*;", src)
        if not m:
            raise ExtractError(f"{lean}: `const {rust}: &str = \"…\";` not found in src/output/html5elements.rs")
        defs.append(f"/-- `{rust}` (src/output/html5elements.rs). -/\ndef {lean} : List Char := {lean_str(unescape(m.group(1)))}\n")
        consts[lean] = unescape(m.group(1))
    body = fn_body(impl_block(src, "Html5Elements", "new", "html5 tables"), "new", "html5 tables")
    # the three namespaces are registered from the three constants
    regs = re.findall(r"let\s+(\w+)\s*=\s*xot\.add_namespace\(\s*(\w+)\s*\)\s*;", body)
    if regs != [("xhtml_namespace_id", "XHTML_NS"), ("mathml_namespace_id", "MATHML_NS"), ("svg_namespace_id", "SVG_NS")]:
        raise ExtractError(f"html5 tables: namespace registrations of Html5Elements::new are {regs}")
    tables = (("html5_names", "html5Names"), ("void_names", "voidNames"),
              ("phrasing_content_names", "phrasingContentNames"), ("formatted_names", "formattedNames"),
              ("no_escape_names", "noEscapeNames"))
    for rust, lean in tables:
        m = re.search(r"let\s+" + rust + r"\s*=\s*\[(.*?)\]\s*;", body, flags=re.S)
        if not m:
            raise ExtractError(f"{lean}: `let {rust} = [ … ];` not found in Html5Elements::new")
        names = [unescape(x) for x in re.findall(STRLIT, m.group(1))]
        if not names or re.sub(STRLIT, "", m.group(1)).replace(",", "").strip() != "":
            raise ExtractError(f"{lean}: the array `{rust}` is not a list of string literals")
        if not re.search(r"let\s+" + rust + r"\s*=\s*HtmlNames::new\(\s*xot\s*,\s*xhtml_namespace_id\s*,\s*&" + rust + r"\s*\)\s*;", body):
            raise ExtractError(f"{lean}: `let {rust} = HtmlNames::new(xot, xhtml_namespace_id, &{rust});` not found")
        defs.append(f"/-- `{rust}` of `Html5Elements::new`. -/\ndef {lean} : List (List Char) :=\n  {lean_strs(names)}\n")
        consts[lean] = names
    # shapes of the predicates the model transcribes
    def squeeze(x):
        return re.sub(r"\s+", "", x)
    hn = impl_block(src, "HtmlNames", "matches", "HtmlNames")
    he = impl_block(src, "Html5Elements", "is_inline", "Html5Elements")
    shapes = (
        (hn, "new", "letmutids=HashSet::new();fornameinnames{ids.insert(xot.add_name_ns(name,xot.no_namespace()));"
                    "ids.insert(xot.add_name_ns(&name.to_ascii_uppercase(),xot.no_namespace()));"
                    "ids.insert(xot.add_name_ns(name,xhtml_namespace_id));"
                    "ids.insert(xot.add_name_ns(&name.to_ascii_uppercase(),xhtml_namespace_id));}"
                    "Self{xhtml_namespace_id,ids,names:names.iter().map(|name|name.to_string()).collect(),}"),
        (hn, "is_html_element", "letnamespace=xot.namespace_for_name(name_id);namespace==self.xhtml_namespace_id||namespace==xot.no_namespace()"),
        (hn, "matches", "ifself.ids.contains(&name_id){returntrue;}if!self.is_html_element(xot,name_id){returnfalse;}"
                        "letname=xot.local_name_str(name_id);letname=name.to_ascii_lowercase();self.names.contains(&name)"),
        (he, "is_inline", "self.is_html_element(xot,name_id)&&((self.phrasing_content_names.matches(xot,name_id))||!self.html5_names.matches(xot,name_id))"),
        (he, "is_html_element", "letnamespace=xot.namespace_for_name(name_id);self.is_html_namespace(xot,namespace)"),
        (he, "must_be_serialized_unprefixed", "namespace==self.xhtml_namespace_id||namespace==self.mathml_namespace_id||namespace==self.svg_namespace_id"),
        (he, "is_html_namespace", "namespace_id==self.xhtml_namespace_id||namespace_id==xot.no_namespace()"),
    )
    for block, fn, want in shapes:
        got = squeeze(fn_body(block, fn, "html5 predicates"))
        if got != want:
            raise ExtractError(f"html5 predicates: body of `{fn}` in src/output/html5elements.rs is `{got}`, expected `{want}` (the model transcribes it)")
    # render_output literals
    ssrc = strip_comments(read("src/output/html5_serializer.rs"))
    body = fn_body(ssrc, "render_output", "html render literals")
    lits = []
    for m in re.finditer(r'format!\(\s*"((?:\\.|[^"\\])*)"|"((?:\\.|[^"\\])*)"\s*\.to_string\(\)', body):
        if m.group(1) is not None:
            lits.append(("fmt", unescape(m.group(1))))
        else:
            lits.append(("lit", unescape(m.group(2))))
    names = [("fmtHtmlStartTagOpenNs", "fmt", 2), ("fmtHtmlStartTagOpen", "fmt", 1), ("litHtmlTagClose", "lit", 0),
             ("litHtmlVoidEndTag", "lit", 0), ("fmtHtmlEndTag", "fmt", 1), ("litHtmlNoPrefix", "lit", 0),
             ("fmtHtmlXmlnsDefault", "fmt", 1), ("fmtHtmlXmlnsPrefix", "fmt", 2), ("fmtHtmlBooleanAttr", "fmt", 1),
             ("fmtHtmlAttribute", "fmt", 2), ("fmtHtmlComment", "fmt", 1), ("fmtHtmlPiData", "fmt", 2),
             ("fmtHtmlPi", "fmt", 1)]
    if len(lits) != len(names):
        raise ExtractError(f"html render literals: expected {len(names)} format!/to_string literals in Html5Serializer::render_output, found {len(lits)}: {lits}")
    for (name, kind, holes), (k, text) in zip(names, lits):
        if k != kind or (kind == "fmt" and text.count("{}") != holes) or ("{" in text.replace("{}", "")):
            raise ExtractError(f"html render literals: {name}: unexpected literal {text!r}")
        if kind == "fmt":
            defs.append(f"def {name} : List (List Char) := {lean_strs(text.split('{}'))}\n")
        else:
            defs.append(f"def {name} : List Char := {lean_str(text)}\n")
        consts[name] = text
    # the frame bookkeeping the model transcribes (`HState.frames`, `htmlDeclarations`, `htmlInitState`)
    sq = squeeze(body)
    for piece, what in (
            (".filter(|(p,ns)|*p!=self.xot.empty_prefix()||*ns==namespace_id)", "own declarations filtered before the push"),
            ("letmutframes=ifdeclarations.is_empty(){0}else{1};self.fullname_serializer.push(declarations);", "frame count of the own declarations"),
            ("self.fullname_serializer.push(vec![(self.xot.empty_prefix(),namespace_id)]);frames+=1;self.frames.push(frames);", "injected binding pushed as its own frame"),
            ("for_in0..self.frames.pop().unwrap_or(0){self.fullname_serializer.pop(true);}", "end tag pops the frames pushed")):
        if piece not in sq:
            raise ExtractError(f"html frames: `{what}` not found in Html5Serializer::render_output (expected `{piece}`)")
    nb = squeeze(fn_body(ssrc, "new", "Html5Serializer::new"))
    if ".namespaces_in_scope(node).filter(|(p,ns)|*p!=xot.empty_prefix()||Some(*ns)==top_namespace)" not in nb or \
            "lettop_namespace=xot.element(node).map(|e|xot.namespace_for_name(e.name()));" not in nb:
        raise ExtractError("html frames: Html5Serializer::new does not filter the inherited default namespace as expected")
    m = re.search(r"data\.contains\(\s*" + CHAR + r"\s*\)", body)
    if not m or len(unescape(m.group(1))) != 1:
        raise ExtractError("htmlPiForbidden: `data.contains('c')` not found in Html5Serializer::render_output")
    defs.append(f"/-- The character a processing instruction's data must not contain (`data.contains`). -/\ndef htmlPiForbidden : Char := {lean_char(unescape(m.group(1)))}\n")
    consts["htmlPiForbidden"] = unescape(m.group(1))
    body = fn_body(ssrc, "serialize_pretty", "html indentation width")
    m = re.search(r'"((?:\\.|[^"\\])*)"\s*\.repeat\(\s*indentation\s*\*\s*(\d+)\s*\)', body)
    nl = re.findall(r'write_all\(\s*b"((?:\\.|[^"\\])*)"\s*\)', body)
    if not m or len(nl) != 1:
        raise ExtractError("Html5Serializer::serialize_pretty: expected `\" \".repeat(indentation * N)` and one `write_all(b\"…\")`")
    defs.append(f"def htmlIndentUnit : List Char := {lean_str(unescape(m.group(1)))}\n")
    defs.append(f"def htmlIndentWidth : Nat := {int(m.group(2))}\n")
    defs.append(f"def htmlNewline : List Char := {lean_str(unescape(nl[0]))}\n")
    consts["htmlIndent"] = [unescape(m.group(1)), int(m.group(2)), unescape(nl[0])]
    body = fn_body(ssrc, "serialize_node", "html token space")
    sp = re.findall(r'write_all\(\s*b"((?:\\.|[^"\\])*)"\s*\)', body)
    if len(sp) != 1:
        raise ExtractError("Html5Serializer::serialize_node: expected one `write_all(b\"…\")` literal (the token space)")
    defs.append(f"def htmlTokenSpace : List Char := {lean_str(unescape(sp[0]))}\n")
    consts["htmlTokenSpace"] = unescape(sp[0])
    check_serializer_write_shapes(ssrc, "Html5Serializer", sp[0], m.group(1), int(m.group(2)), nl[0])
    # the doctype: first thing `Html5::serialize_write_with_normalizer` writes
    xsrc = strip_comments(read("src/serialize.rs"))
    mi = re.search(r"\bimpl\s*<'a>\s*Html5\s*<'a>\s*\{", xsrc)
    if not mi:
        raise ExtractError("htmlDoctype: `impl<'a> Html5<'a> {` not found in src/serialize.rs")
    body = fn_body(xsrc[mi.start():], "serialize_write_with_normalizer", "htmlDoctype")
    # the one direct write of the entry point: `?`-propagated (an `.unwrap()` here is the repaired defect coming back)
    if len(checked_write_calls(body, "Html5::serialize_write_with_normalizer")) != 1:
        raise ExtractError("htmlDoctype: `Html5::serialize_write_with_normalizer` does not make exactly one direct `write_all` call (the doctype)")
    m = re.match(r'\s*w\.write_all\(\s*b"((?:\\.|[^"\\])*)"\s*\)\s*\?\s*;', body)
    if not m:
        raise ExtractError("htmlDoctype: `Html5::serialize_write_with_normalizer` does not start with `w.write_all(b\"…\")?;`")
    rest = squeeze_ws(body[m.end():])
    for piece in ("letoutputs=gen_outputs(self.xot,node);",
                  "ifletSome(indentation)=parameters.indentation{serializer.serialize_pretty(w,outputs,&indentation.suppress)?;}else{serializer.serialize(w,outputs)?;}Ok(())"):
        if piece not in rest:
            raise ExtractError(f"Html5::serialize_write_with_normalizer: `{piece}` not found after the doctype write")
    defs.append(f"/-- The bytes `Html5::serialize_write_with_normalizer` writes first (src/serialize.rs). -/\ndef htmlDoctype : List Char := {lean_str(unescape(m.group(1)))}\n")
    consts["htmlDoctype"] = unescape(m.group(1))


# ---------------------------------------------------------------------------------------------
# C12: `struct Xot` — field list, types, and the ownership argument for `#[derive(Clone)]`

OWNED_EXTERNAL = {
    # std / external containers that own their contents and whose Clone is a deep copy
    "String", "Vec", "Option", "HashMap", "HashSet", "BTreeMap", "BTreeSet", "VecDeque", "Box",
    "Arena", "NodeId",  # indextree: Vec-backed arena, Copy index + stamp
    "bool", "char", "u8", "u16", "u32", "u64", "u128", "usize", "i8", "i16", "i32", "i64", "i128", "isize",
    "f32", "f64",
}
SHARING = [r"\bRc\b", r"\bArc\b", r"\bWeak\b", r"&", r"\*\s*const\b", r"\*\s*mut\b", r"\bCow\b", r"\bdyn\b", r"'",
           r"\bNonNull\b", r"\bstatic\b", r"\bRefCell\b", r"\bCell\b", r"\bMutex\b", r"\bRwLock\b", r"\bfn\b"]


def rust_sources():
    out = {}
    for root, _d, files in os.walk(os.path.join(REPO, "src")):
        for f in files:
            if f.endswith(".rs"):
                rel = os.path.relpath(os.path.join(root, f), REPO)
                out[rel] = strip_comments(read(rel))
    return out


def balanced(src, i, open_c, close_c):
    """src[i] == open_c; returns index just after the matching close."""
    depth = 0
    j = i
    while j < len(src):
        if src[j] == open_c:
            depth += 1
        elif src[j] == close_c:
            depth -= 1
            if depth == 0:
                return j + 1
        j += 1
    raise ExtractError("unbalanced " + open_c)


def local_type_defs(sources):
    """name -> dict(kind, body (text holding the component types), derives, file) for every
    `type`, `struct`, `enum` of the crate (test modules included: harmless)."""
    defs = {}
    for rel, src in sources.items():
        for m in re.finditer(r"\btype\s+(\w+)\s*(?:<[^=]*>)?\s*=\s*([^;]+);", src):
            defs.setdefault(m.group(1), []).append({"kind": "type", "body": m.group(2), "derives": None, "file": rel})
        for m in re.finditer(r"((?:#\[[^\]]*\]\s*)*)(?:pub(?:\([^)]*\))?\s+)?(struct|enum)\s+(\w+)", src):
            attrs, kind, name = m.groups()
            j = m.end()
            while j < len(src) and src[j].isspace():
                j += 1
            generics = ""
            if j < len(src) and src[j] == "<":
                e = balanced(src, j, "<", ">")
                generics = src[j + 1:e - 1]
                j = e
            k = j
            while k < len(src) and src[k] not in "{(;":
                k += 1
            if k >= len(src):
                continue
            opener = src[k]
            if opener == ";":
                body = ""
            else:
                end = balanced(src, k, opener, "}" if opener == "{" else ")")
                body = src[k + 1:end - 1]
            derives = set()
            for d in re.finditer(r"derive\(([^)]*)\)", attrs):
                derives |= {x.strip() for x in d.group(1).split(",") if x.strip()}
            # generic parameters (their bounds are trait names, not component types)
            params = set()
            depth = 0
            cur = ""
            for ch in generics + ",":
                if ch == "<":
                    depth += 1
                elif ch == ">":
                    depth -= 1
                if ch == "," and depth == 0:
                    pm = re.match(r"\s*(\w+)", cur)
                    if pm:
                        params.add(pm.group(1))
                    cur = ""
                else:
                    cur += ch
            defs.setdefault(name, []).append({"kind": kind, "body": body, "derives": derives, "file": rel, "params": params})
    return defs


def struct_fields(body, what):
    fields = []
    depth = 0
    cur = ""
    for ch in body:
        if ch in "<([{":
            depth += 1
        elif ch in ">)]}":
            depth -= 1
        if ch == "," and depth == 0:
            fields.append(cur)
            cur = ""
        else:
            cur += ch
    if cur.strip():
        fields.append(cur)
    out = []
    for f in fields:
        f = re.sub(r"#\[[^\]]*\]", "", f).strip()
        m = re.fullmatch(r"(?:pub(?:\([^)]*\))?\s+)?(\w+)\s*:\s*(.+)", f, flags=re.S)
        if not m:
            raise ExtractError(f"{what}: cannot read field `{f[:60]}`")
        out.append((m.group(1), re.sub(r"\s+", " ", m.group(2)).strip()))
    return out


def extract_xot_fields(defs_out, consts):
    sources = rust_sources()
    tdefs = local_type_defs(sources)
    xots = tdefs.get("Xot", [])
    xot = xots[0] if len(xots) == 1 else None
    if not xot or xot["kind"] != "struct" or xot["file"] != os.path.join("src", "xotdata.rs"):
        raise ExtractError("xotFields: `struct Xot` not found in src/xotdata.rs")
    if "Clone" not in (xot["derives"] or set()):
        raise ExtractError("xotFields: `struct Xot` does not `#[derive(Clone)]`")
    manual = [rel for rel, src in sources.items() if re.search(r"\bimpl\b[^{;]*\bClone\s+for\s+Xot\b", src)]
    if manual:
        raise ExtractError(f"xotFields: manual `impl Clone for Xot` in {manual}")
    fields = struct_fields(xot["body"], "xotFields")
    if not fields:
        raise ExtractError("xotFields: `struct Xot` has no named fields")
    rows = []
    for fname, ftype in fields:
        # transitive closure of the crate-local types mentioned by the field
        seen = set()
        todo = [("<field>", ftype, set())]
        texts = []
        while todo:
            owner, text, params = todo.pop()
            texts.append((owner, text))
            for pat in SHARING:
                if re.search(pat, text):
                    raise ExtractError(f"xotFields: field `{fname}: {ftype}` could share ownership: `{owner}` contains `{re.search(pat, text).group(0)}` ({text.strip()[:80]})")
            for ident in set(re.findall(r"[A-Za-z_]\w*", text)):
                if ident in seen or ident in params or ident in ("pub", "crate", "super", "self", "Self", "std", "collections", "ahash", "indextree", "in"):
                    continue
                if ident in tdefs:
                    seen.add(ident)
                    # several definitions may share a name (modules): every one of them is checked
                    for d in tdefs[ident]:
                        if d["kind"] != "type":
                            if "Clone" not in (d["derives"] or set()):
                                raise ExtractError(f"xotFields: `{ident}` ({d['file']}, reached from field `{fname}`) does not derive Clone: its clone is hand-written or absent")
                        body = d["body"]
                        if d["kind"] == "struct" and ":" in body:
                            comps = " , ".join(t for _n, t in struct_fields(body, f"xotFields/{ident}"))
                        elif d["kind"] == "enum":
                            # variant names are not types: keep only what is inside (...) or {...}
                            comps = " , ".join(re.findall(r"\(([^()]*)\)", body)) + " , " + " , ".join(
                                t for blk in re.findall(r"\{([^{}]*)\}", body) for _n, t in struct_fields(blk, f"xotFields/{ident}"))
                        else:
                            comps = re.sub(r"\bpub(?:\([^)]*\))?", "", body)
                        todo.append((f"{ident} ({d['file']})", comps, d.get("params", set())))
                elif ident in OWNED_EXTERNAL:
                    seen.add(ident)
                elif re.fullmatch(r"[a-z_]\w*", ident):
                    continue  # path segment / field-ish lowercase word
                else:
                    raise ExtractError(f"xotFields: type `{ident}` (reached from field `{fname}: {ftype}` via `{owner}`) is neither defined in the crate nor a known owning type")
        rows.append((fname, ftype, True))
    body = ", ".join(f"({lean_str(n)}, {lean_str(t)}, {'true' if o else 'false'})" for n, t, o in rows)
    defs_out.append("/-- `struct Xot` (xotdata.rs): field, type, \"owned\" = no component type in the transitive closure of\n    the crate's own definitions can share ownership (Rc, Arc, references, raw pointers, Cow, dyn …)\n    and every crate type on the way derives Clone. -/\n"
                    f"def xotFields : List (List Char × List Char × Bool) :=\n  [{body}]\n")
    defs_out.append("def xotDerivesClone : Bool := true\n")
    consts["xotFields"] = [[n, t] for n, t, _o in rows]


# every function named extract_* is an extractor, in definition order
EXTRACTORS = [v for k, v in list(globals().items()) if k.startswith("extract_") and callable(v)]


def main():
    defs = []
    consts = {}
    errors = []
    for ex in EXTRACTORS:
        try:
            ex(defs, consts)
        except ExtractError as e:
            errors.append(str(e))
        except (OSError, KeyError, IndexError, AttributeError, ValueError) as e:
            errors.append(f"{ex.__name__}: {type(e).__name__}: {e}")
    if errors:
        print(json.dumps({"ok": False, "errors": errors}))
        return 3
    text = "/- GENERATED by extract/extract.py from /repo/src — do not edit. -/\nnamespace XotModel.Gen\n\n" + "\n".join(defs) + "\nend XotModel.Gen\n"
    out = os.path.normpath(OUT)
    old = None
    if os.path.exists(out):
        with open(out, encoding="utf-8") as f:
            old = f.read()
    changed = old != text
    if changed:
        with open(out, "w", encoding="utf-8") as f:
            f.write(text)
    print(json.dumps({"ok": True, "changed": changed, "constants": {k: (v if not isinstance(v, list) else [list(x) if isinstance(x, tuple) else x for x in v]) for k, v in consts.items()}}))
    return 0


if __name__ == "__main__":
    sys.exit(main())
