#!/usr/bin/env python3
"""
extract.py — mini-translator: reads declarative parts of /repo/src (escape tables, entity
names, literals, id widths, name tables …) and writes lean/XotModel/Generated.lean.

Run on every check.  Each extractor asserts the source shape it expects; when the shape is
not found it raises ExtractError naming what it could not read (the tie to the source is
then broken and check.py goes into its search).  Output is only rewritten when its content
changes so that lake rebuilds only what depends on a changed constant.
"""
import json
import os
import re
import sys

REPO = os.environ.get("XOT_REPO", "/repo")
OUT = os.path.join(os.path.dirname(os.path.abspath(__file__)), "..", "lean", "XotModel", "Generated.lean")


class ExtractError(Exception):
    pass


def read(rel):
    with open(os.path.join(REPO, rel), encoding="utf-8") as f:
        return f.read()


def strip_comments(src):
    """Remove // line comments and /* */ block comments, leaving string/char literals intact."""
    out = []
    i = 0
    n = len(src)
    while i < n:
        c = src[i]
        if c == '"':
            j = i + 1
            while j < n and src[j] != '"':
                j += 2 if src[j] == "\\" else 1
            out.append(src[i:j + 1])
            i = j + 1
        elif c == "'" :
            # char literal or lifetime
            m = re.match(r"'(\\u\{[0-9a-fA-F]+\}|\\.|[^\\'])'", src[i:])
            if m:
                out.append(m.group(0))
                i += len(m.group(0))
            else:
                out.append(c)
                i += 1
        elif src.startswith("//", i):
            j = src.find("\n", i)
            i = n if j < 0 else j
        elif src.startswith("/*", i):
            j = src.find("*/", i)
            i = n if j < 0 else j + 2
        else:
            out.append(c)
            i += 1
    return "".join(out)


def fn_body(src, name, what):
    """Body (between the outermost braces) of `fn name`."""
    m = re.search(r"\bfn\s+" + re.escape(name) + r"\b", src)
    if not m:
        raise ExtractError(f"{what}: function `{name}` not found")
    i = src.find("{", m.end())
    # skip generics / where clauses: the first '{' after the signature's ')' … good enough
    depth = 0
    j = i
    n = len(src)
    while j < n:
        c = src[j]
        if c == '"':
            k = j + 1
            while k < n and src[k] != '"':
                k += 2 if src[k] == "\\" else 1
            j = k + 1
            continue
        if c == "'":
            m2 = re.match(r"'(\\u\{[0-9a-fA-F]+\}|\\.|[^\\'])'", src[j:])
            if m2:
                j += len(m2.group(0))
                continue
        if c == "{":
            depth += 1
        elif c == "}":
            depth -= 1
            if depth == 0:
                return src[i + 1:j]
        j += 1
    raise ExtractError(f"{what}: unbalanced braces in `{name}`")


def unescape(lit):
    """Decode the inside of a Rust char or string literal."""
    out = []
    i = 0
    while i < len(lit):
        c = lit[i]
        if c == "\\":
            d = lit[i + 1]
            if d == "u":
                m = re.match(r"\\u\{([0-9a-fA-F_]+)\}", lit[i:])
                out.append(chr(int(m.group(1).replace("_", ""), 16)))
                i += len(m.group(0))
                continue
            if d == "x":
                out.append(chr(int(lit[i + 2:i + 4], 16)))
                i += 4
                continue
            out.append({"n": "\n", "t": "\t", "r": "\r", "0": "\0", "\\": "\\", "'": "'", '"': '"'}[d])
            i += 2
        else:
            out.append(c)
            i += 1
    return "".join(out)


def lean_char(c):
    o = ord(c)
    if c == "'":
        return "'\\''"
    if c == "\\":
        return "'\\\\'"
    if c == "\t":
        return "'\\t'"
    if c == "\n":
        return "'\\n'"
    if c == "\r":
        return "'\\r'"
    if 0x20 <= o < 0x7F:
        return f"'{c}'"
    if o <= 0xFFFF and not (0xD800 <= o <= 0xDFFF):
        return "'\\u%04x'" % o
    return f"(Char.ofNat 0x{o:x})"


def lean_str(s):
    return "[" + ",".join(lean_char(c) for c in s) + "]"


CHAR = r"'((?:\\u\{[0-9a-fA-F]+\}|\\.|[^\\'])+)'"


def escape_arms(body, what):
    """`'c' [if guard] => { … push_str("…") … }` arms → [(char, guard or None, string)]."""
    arms = []
    for m in re.finditer(CHAR + r"\s*(?:if\s+([^=]+?)\s*)?=>\s*\{?", body):
        ch = unescape(m.group(1))
        guard = m.group(2)
        # arm text: up to the next arm start
        rest = body[m.end():]
        nxt = re.search(r"(?:" + CHAR + r"|_)\s*(?:if\s+[^=]+?\s*)?=>", rest)
        arm = rest[: nxt.start()] if nxt else rest
        ps = re.findall(r'push_str\(\s*"((?:\\.|[^"\\])*)"\s*\)', arm)
        arms.append((ch, guard.strip() if guard else None, [unescape(p) for p in ps], arm))
    if not arms:
        raise ExtractError(f"{what}: no `'c' => …` arms found")
    return arms


def table(arms, what):
    rows = []
    for ch, guard, ps, _arm in arms:
        if guard is not None:
            continue
        if len(ps) != 1:
            raise ExtractError(f"{what}: arm for {ch!r} does not consist of one push_str")
        rows.append((ch, ps[0]))
    return rows


def lean_table(name, rows):
    body = ", ".join(f"({lean_char(c)}, {lean_str(s)})" for c, s in rows)
    return f"def {name} : List (Char × List Char) :=\n  [{body}]\n"


def extract_entity(defs, consts):
    src = strip_comments(read("src/entity.rs"))
    # serialize_attribute
    rows = table(escape_arms(fn_body(src, "serialize_attribute", "attrEscapes"), "attrEscapes"), "attrEscapes")
    defs.append(lean_table("attrEscapes", rows))
    consts["attrEscapes"] = rows
    # serialize_text
    arms = escape_arms(fn_body(src, "serialize_text", "textEscapes"), "textEscapes")
    rows = table(arms, "textEscapes")
    if any(c == ">" for c, _ in rows):
        raise ExtractError("textEscapes: unguarded '>' arm (expected `'>' if !unescaped_gt` / `'>' if unescaped_gt`)")
    defs.append(lean_table("textEscapes", rows))
    consts["textEscapes"] = rows
    gt = [a for a in arms if a[0] == ">" and a[1] is not None]
    esc = [a for a in gt if re.fullmatch(r"!\s*unescaped_gt", a[1])]
    raw = [a for a in gt if re.fullmatch(r"unescaped_gt", a[1])]
    if len(esc) != 1 or len(raw) != 1 or len(esc[0][2]) != 1:
        raise ExtractError("textGtEscape: expected exactly the arms `'>' if !unescaped_gt` and `'>' if unescaped_gt`")
    defs.append(f"def textGtEscape : List Char := {lean_str(esc[0][2][0])}\n")
    consts["textGtEscape"] = esc[0][2][0]
    # the look-back arm must escape with the same string and test for two ']'
    rawarm = raw[0][3]
    if raw[0][2] != [esc[0][2][0]] or rawarm.count("Some(']')") != 2 or "rev().take(2)" not in rawarm.replace(" ", "").replace("\n", ""):
        raise ExtractError("serialize_text: the `unescaped_gt` look-back arm has an unexpected shape")
    # parse_content named entities
    body = fn_body(src, "parse_content", "namedEntities")
    ents = re.findall(r'"([A-Za-z0-9]+)"\s*=>\s*result\.push\(\s*' + CHAR + r"\s*\)", body)
    if not ents:
        raise ExtractError("namedEntities: no `\"name\" => result.push('c')` arms in parse_content")
    rows = [(n, unescape(c)) for n, c in ents]
    defs.append("def namedEntities : List (List Char × Char) :=\n  [" + ", ".join(f"({lean_str(n)}, {lean_char(c)})" for n, c in rows) + "]\n")
    consts["namedEntities"] = rows
    # cdata literals
    body = fn_body(src, "serialize_cdata", "cdata literals")
    ps = [unescape(p) for p in re.findall(r'push_str\(\s*"((?:\\.|[^"\\])*)"\s*\)', body)]
    if len(ps) != 3:
        raise ExtractError(f"cdata literals: expected 3 push_str literals in serialize_cdata, found {len(ps)}")
    defs.append(f"def cdataOpen : List Char := {lean_str(ps[0])}\n")
    defs.append(f"def cdataSplit : List Char := {lean_str(ps[1])}\n")
    defs.append(f"def cdataClose : List Char := {lean_str(ps[2])}\n")
    consts["cdata"] = ps


def extract_html_escapes(defs, consts):
    src = strip_comments(read("src/output/html5_serializer.rs"))
    for fn, name in (("serialize_text_html", "htmlTextEscapes"), ("serialize_attribute_html", "htmlAttrEscapes")):
        rows = table(escape_arms(fn_body(src, fn, name), name), name)
        defs.append(lean_table(name, rows))
        consts[name] = rows


# ---------------------------------------------------------------------------------------------
# C12: `struct Xot` — field list, types, and the ownership argument for `#[derive(Clone)]`

OWNED_EXTERNAL = {
    # std / external containers that own their contents and whose Clone is a deep copy
    "String", "Vec", "Option", "HashMap", "HashSet", "BTreeMap", "BTreeSet", "VecDeque", "Box",
    "Arena", "NodeId",  # indextree: Vec-backed arena, Copy index + stamp
    "bool", "char", "u8", "u16", "u32", "u64", "u128", "usize", "i8", "i16", "i32", "i64", "i128", "isize",
    "f32", "f64",
}
SHARING = [r"\bRc\b", r"\bArc\b", r"\bWeak\b", r"&", r"\*\s*const\b", r"\*\s*mut\b", r"\bCow\b", r"\bdyn\b", r"'",
           r"\bNonNull\b", r"\bstatic\b", r"\bRefCell\b", r"\bCell\b", r"\bMutex\b", r"\bRwLock\b", r"\bfn\b"]


def rust_sources():
    out = {}
    for root, _d, files in os.walk(os.path.join(REPO, "src")):
        for f in files:
            if f.endswith(".rs"):
                rel = os.path.relpath(os.path.join(root, f), REPO)
                out[rel] = strip_comments(read(rel))
    return out


def balanced(src, i, open_c, close_c):
    """src[i] == open_c; returns index just after the matching close."""
    depth = 0
    j = i
    while j < len(src):
        if src[j] == open_c:
            depth += 1
        elif src[j] == close_c:
            depth -= 1
            if depth == 0:
                return j + 1
        j += 1
    raise ExtractError("unbalanced " + open_c)


def local_type_defs(sources):
    """name -> dict(kind, body (text holding the component types), derives, file) for every
    `type`, `struct`, `enum` of the crate (test modules included: harmless)."""
    defs = {}
    for rel, src in sources.items():
        for m in re.finditer(r"\btype\s+(\w+)\s*(?:<[^=]*>)?\s*=\s*([^;]+);", src):
            defs.setdefault(m.group(1), []).append({"kind": "type", "body": m.group(2), "derives": None, "file": rel})
        for m in re.finditer(r"((?:#\[[^\]]*\]\s*)*)(?:pub(?:\([^)]*\))?\s+)?(struct|enum)\s+(\w+)", src):
            attrs, kind, name = m.groups()
            j = m.end()
            while j < len(src) and src[j].isspace():
                j += 1
            generics = ""
            if j < len(src) and src[j] == "<":
                e = balanced(src, j, "<", ">")
                generics = src[j + 1:e - 1]
                j = e
            k = j
            while k < len(src) and src[k] not in "{(;":
                k += 1
            if k >= len(src):
                continue
            opener = src[k]
            if opener == ";":
                body = ""
            else:
                end = balanced(src, k, opener, "}" if opener == "{" else ")")
                body = src[k + 1:end - 1]
            derives = set()
            for d in re.finditer(r"derive\(([^)]*)\)", attrs):
                derives |= {x.strip() for x in d.group(1).split(",") if x.strip()}
            # generic parameters (their bounds are trait names, not component types)
            params = set()
            depth = 0
            cur = ""
            for ch in generics + ",":
                if ch == "<":
                    depth += 1
                elif ch == ">":
                    depth -= 1
                if ch == "," and depth == 0:
                    pm = re.match(r"\s*(\w+)", cur)
                    if pm:
                        params.add(pm.group(1))
                    cur = ""
                else:
                    cur += ch
            defs.setdefault(name, []).append({"kind": kind, "body": body, "derives": derives, "file": rel, "params": params})
    return defs


def struct_fields(body, what):
    fields = []
    depth = 0
    cur = ""
    for ch in body:
        if ch in "<([{":
            depth += 1
        elif ch in ">)]}":
            depth -= 1
        if ch == "," and depth == 0:
            fields.append(cur)
            cur = ""
        else:
            cur += ch
    if cur.strip():
        fields.append(cur)
    out = []
    for f in fields:
        f = re.sub(r"#\[[^\]]*\]", "", f).strip()
        m = re.fullmatch(r"(?:pub(?:\([^)]*\))?\s+)?(\w+)\s*:\s*(.+)", f, flags=re.S)
        if not m:
            raise ExtractError(f"{what}: cannot read field `{f[:60]}`")
        out.append((m.group(1), re.sub(r"\s+", " ", m.group(2)).strip()))
    return out


def extract_xot_fields(defs_out, consts):
    sources = rust_sources()
    tdefs = local_type_defs(sources)
    xots = tdefs.get("Xot", [])
    xot = xots[0] if len(xots) == 1 else None
    if not xot or xot["kind"] != "struct" or xot["file"] != os.path.join("src", "xotdata.rs"):
        raise ExtractError("xotFields: `struct Xot` not found in src/xotdata.rs")
    if "Clone" not in (xot["derives"] or set()):
        raise ExtractError("xotFields: `struct Xot` does not `#[derive(Clone)]`")
    manual = [rel for rel, src in sources.items() if re.search(r"\bimpl\b[^{;]*\bClone\s+for\s+Xot\b", src)]
    if manual:
        raise ExtractError(f"xotFields: manual `impl Clone for Xot` in {manual}")
    fields = struct_fields(xot["body"], "xotFields")
    if not fields:
        raise ExtractError("xotFields: `struct Xot` has no named fields")
    rows = []
    for fname, ftype in fields:
        # transitive closure of the crate-local types mentioned by the field
        seen = set()
        todo = [("<field>", ftype, set())]
        texts = []
        while todo:
            owner, text, params = todo.pop()
            texts.append((owner, text))
            for pat in SHARING:
                if re.search(pat, text):
                    raise ExtractError(f"xotFields: field `{fname}: {ftype}` could share ownership: `{owner}` contains `{re.search(pat, text).group(0)}` ({text.strip()[:80]})")
            for ident in set(re.findall(r"[A-Za-z_]\w*", text)):
                if ident in seen or ident in params or ident in ("pub", "crate", "super", "self", "Self", "std", "collections", "ahash", "indextree", "in"):
                    continue
                if ident in tdefs:
                    seen.add(ident)
                    # several definitions may share a name (modules): every one of them is checked
                    for d in tdefs[ident]:
                        if d["kind"] != "type":
                            if "Clone" not in (d["derives"] or set()):
                                raise ExtractError(f"xotFields: `{ident}` ({d['file']}, reached from field `{fname}`) does not derive Clone: its clone is hand-written or absent")
                        body = d["body"]
                        if d["kind"] == "struct" and ":" in body:
                            comps = " , ".join(t for _n, t in struct_fields(body, f"xotFields/{ident}"))
                        elif d["kind"] == "enum":
                            # variant names are not types: keep only what is inside (...) or {...}
                            comps = " , ".join(re.findall(r"\(([^()]*)\)", body)) + " , " + " , ".join(
                                t for blk in re.findall(r"\{([^{}]*)\}", body) for _n, t in struct_fields(blk, f"xotFields/{ident}"))
                        else:
                            comps = re.sub(r"\bpub(?:\([^)]*\))?", "", body)
                        todo.append((f"{ident} ({d['file']})", comps, d.get("params", set())))
                elif ident in OWNED_EXTERNAL:
                    seen.add(ident)
                elif re.fullmatch(r"[a-z_]\w*", ident):
                    continue  # path segment / field-ish lowercase word
                else:
                    raise ExtractError(f"xotFields: type `{ident}` (reached from field `{fname}: {ftype}` via `{owner}`) is neither defined in the crate nor a known owning type")
        rows.append((fname, ftype, True))
    body = ", ".join(f"({lean_str(n)}, {lean_str(t)}, {'true' if o else 'false'})" for n, t, o in rows)
    defs_out.append("/-- `struct Xot` (xotdata.rs): field, type, \"owned\" = no component type in the transitive closure of\n    the crate's own definitions can share ownership (Rc, Arc, references, raw pointers, Cow, dyn …)\n    and every crate type on the way derives Clone. -/\n"
                    f"def xotFields : List (List Char × List Char × Bool) :=\n  [{body}]\n")
    defs_out.append("def xotDerivesClone : Bool := true\n")
    consts["xotFields"] = [[n, t] for n, t, _o in rows]


EXTRACTORS = [extract_entity, extract_html_escapes, extract_xot_fields]


def main():
    defs = []
    consts = {}
    errors = []
    for ex in EXTRACTORS:
        try:
            ex(defs, consts)
        except ExtractError as e:
            errors.append(str(e))
        except (OSError, KeyError, IndexError, AttributeError, ValueError) as e:
            errors.append(f"{ex.__name__}: {type(e).__name__}: {e}")
    if errors:
        print(json.dumps({"ok": False, "errors": errors}))
        return 3
    text = "/- GENERATED by extract/extract.py from /repo/src — do not edit. -/\nnamespace XotModel.Gen\n\n" + "\n".join(defs) + "\nend XotModel.Gen\n"
    out = os.path.normpath(OUT)
    old = None
    if os.path.exists(out):
        with open(out, encoding="utf-8") as f:
            old = f.read()
    changed = old != text
    if changed:
        with open(out, "w", encoding="utf-8") as f:
            f.write(text)
    print(json.dumps({"ok": True, "changed": changed, "constants": {k: (v if not isinstance(v, list) else [list(x) if isinstance(x, tuple) else x for x in v]) for k, v in consts.items()}}))
    return 0


if __name__ == "__main__":
    sys.exit(main())
