#!/usr/bin/env python3
"""
extract.py — mini-translator: reads declarative parts of /repo/src (escape tables, entity
names, literals, id widths, name tables …) and writes lean/XotModel/Generated.lean.

Run on every check.  Each extractor asserts the source shape it expects; when the shape is
not found it raises ExtractError naming what it could not read (the tie to the source is
then broken and check.py goes into its search).  Output is only rewritten when its content
changes so that lake rebuilds only what depends on a changed constant.
"""
import json
import os
import re
import sys

REPO = os.environ.get("XOT_REPO", "/repo")
OUT = os.path.join(os.path.dirname(os.path.abspath(__file__)), "..", "lean", "XotModel", "Generated.lean")


class ExtractError(Exception):
    pass


def read(rel):
    with open(os.path.join(REPO, rel), encoding="utf-8") as f:
        return f.read()


def strip_comments(src):
    """Remove // line comments and /* */ block comments, leaving string/char literals intact."""
    out = []
    i = 0
    n = len(src)
    while i < n:
        c = src[i]
        if c == '"':
            j = i + 1
            while j < n and src[j] != '"':
                j += 2 if src[j] == "\\" else 1
            out.append(src[i:j + 1])
            i = j + 1
        elif c == "'" :
            # char literal or lifetime
            m = re.match(r"'(\\u\{[0-9a-fA-F]+\}|\\.|[^\\'])'", src[i:])
            if m:
                out.append(m.group(0))
                i += len(m.group(0))
            else:
                out.append(c)
                i += 1
        elif src.startswith("//", i):
            j = src.find("\n", i)
            i = n if j < 0 else j
        elif src.startswith("/*", i):
            j = src.find("*/", i)
            i = n if j < 0 else j + 2
        else:
            out.append(c)
            i += 1
    return "".join(out)


def fn_body(src, name, what):
    """Body (between the outermost braces) of `fn name`."""
    m = re.search(r"\bfn\s+" + re.escape(name) + r"\b", src)
    if not m:
        raise ExtractError(f"{what}: function `{name}` not found")
    i = src.find("{", m.end())
    # skip generics / where clauses: the first '{' after the signature's ')' … good enough
    depth = 0
    j = i
    n = len(src)
    while j < n:
        c = src[j]
        if c == '"':
            k = j + 1
            while k < n and src[k] != '"':
                k += 2 if src[k] == "\\" else 1
            j = k + 1
            continue
        if c == "'":
            m2 = re.match(r"'(\\u\{[0-9a-fA-F]+\}|\\.|[^\\'])'", src[j:])
            if m2:
                j += len(m2.group(0))
                continue
        if c == "{":
            depth += 1
        elif c == "}":
            depth -= 1
            if depth == 0:
                return src[i + 1:j]
        j += 1
    raise ExtractError(f"{what}: unbalanced braces in `{name}`")


def unescape(lit):
    """Decode the inside of a Rust char or string literal."""
    out = []
    i = 0
    while i < len(lit):
        c = lit[i]
        if c == "\\":
            d = lit[i + 1]
            if d == "u":
                m = re.match(r"\\u\{([0-9a-fA-F_]+)\}", lit[i:])
                out.append(chr(int(m.group(1).replace("_", ""), 16)))
                i += len(m.group(0))
                continue
            if d == "x":
                out.append(chr(int(lit[i + 2:i + 4], 16)))
                i += 4
                continue
            out.append({"n": "\n", "t": "\t", "r": "\r", "0": "\0", "\\": "\\", "'": "'", '"': '"'}[d])
            i += 2
        else:
            out.append(c)
            i += 1
    return "".join(out)


def lean_char(c):
    o = ord(c)
    if c == "'":
        return "'\\''"
    if c == "\\":
        return "'\\\\'"
    if c == "\t":
        return "'\\t'"
    if c == "\n":
        return "'\\n'"
    if c == "\r":
        return "'\\r'"
    if 0x20 <= o < 0x7F:
        return f"'{c}'"
    if o <= 0xFFFF and not (0xD800 <= o <= 0xDFFF):
        return "'\\u%04x'" % o
    return f"(Char.ofNat 0x{o:x})"


def lean_str(s):
    return "[" + ",".join(lean_char(c) for c in s) + "]"


CHAR = r"'((?:\\u\{[0-9a-fA-F]+\}|\\.|[^\\'])+)'"


def escape_arms(body, what):
    """`'c' [if guard] => { … push_str("…") … }` arms → [(char, guard or None, string)]."""
    arms = []
    for m in re.finditer(CHAR + r"\s*(?:if\s+([^=]+?)\s*)?=>\s*\{?", body):
        ch = unescape(m.group(1))
        guard = m.group(2)
        # arm text: up to the next arm start
        rest = body[m.end():]
        nxt = re.search(r"(?:" + CHAR + r"|_)\s*(?:if\s+[^=]+?\s*)?=>", rest)
        arm = rest[: nxt.start()] if nxt else rest
        ps = re.findall(r'push_str\(\s*"((?:\\.|[^"\\])*)"\s*\)', arm)
        arms.append((ch, guard.strip() if guard else None, [unescape(p) for p in ps], arm))
    if not arms:
        raise ExtractError(f"{what}: no `'c' => …` arms found")
    return arms


def table(arms, what):
    rows = []
    for ch, guard, ps, _arm in arms:
        if guard is not None:
            continue
        if len(ps) != 1:
            raise ExtractError(f"{what}: arm for {ch!r} does not consist of one push_str")
        rows.append((ch, ps[0]))
    return rows


def lean_table(name, rows):
    body = ", ".join(f"({lean_char(c)}, {lean_str(s)})" for c, s in rows)
    return f"def {name} : List (Char × List Char) :=\n  [{body}]\n"


def extract_entity(defs, consts):
    src = strip_comments(read("src/entity.rs"))
    # serialize_attribute
    rows = table(escape_arms(fn_body(src, "serialize_attribute", "attrEscapes"), "attrEscapes"), "attrEscapes")
    defs.append(lean_table("attrEscapes", rows))
    consts["attrEscapes"] = rows
    # serialize_text
    arms = escape_arms(fn_body(src, "serialize_text", "textEscapes"), "textEscapes")
    rows = table(arms, "textEscapes")
    if any(c == ">" for c, _ in rows):
        raise ExtractError("textEscapes: unguarded '>' arm (expected `'>' if !unescaped_gt` / `'>' if unescaped_gt`)")
    defs.append(lean_table("textEscapes", rows))
    consts["textEscapes"] = rows
    gt = [a for a in arms if a[0] == ">" and a[1] is not None]
    esc = [a for a in gt if re.fullmatch(r"!\s*unescaped_gt", a[1])]
    raw = [a for a in gt if re.fullmatch(r"unescaped_gt", a[1])]
    if len(esc) != 1 or len(raw) != 1 or len(esc[0][2]) != 1:
        raise ExtractError("textGtEscape: expected exactly the arms `'>' if !unescaped_gt` and `'>' if unescaped_gt`")
    defs.append(f"def textGtEscape : List Char := {lean_str(esc[0][2][0])}\n")
    consts["textGtEscape"] = esc[0][2][0]
    # the look-back arm must escape with the same string and test for two ']'
    rawarm = raw[0][3]
    if raw[0][2] != [esc[0][2][0]] or rawarm.count("Some(']')") != 2 or "rev().take(2)" not in rawarm.replace(" ", "").replace("\n", ""):
        raise ExtractError("serialize_text: the `unescaped_gt` look-back arm has an unexpected shape")
    # parse_content named entities
    body = fn_body(src, "parse_content", "namedEntities")
    ents = re.findall(r'"([A-Za-z0-9]+)"\s*=>\s*result\.push\(\s*' + CHAR + r"\s*\)", body)
    if not ents:
        raise ExtractError("namedEntities: no `\"name\" => result.push('c')` arms in parse_content")
    rows = [(n, unescape(c)) for n, c in ents]
    defs.append("def namedEntities : List (List Char × Char) :=\n  [" + ", ".join(f"({lean_str(n)}, {lean_char(c)})" for n, c in rows) + "]\n")
    consts["namedEntities"] = rows
    # cdata literals
    body = fn_body(src, "serialize_cdata", "cdata literals")
    ps = [unescape(p) for p in re.findall(r'push_str\(\s*"((?:\\.|[^"\\])*)"\s*\)', body)]
    if len(ps) != 3:
        raise ExtractError(f"cdata literals: expected 3 push_str literals in serialize_cdata, found {len(ps)}")
    defs.append(f"def cdataOpen : List Char := {lean_str(ps[0])}\n")
    defs.append(f"def cdataSplit : List Char := {lean_str(ps[1])}\n")
    defs.append(f"def cdataClose : List Char := {lean_str(ps[2])}\n")
    consts["cdata"] = ps


def extract_html_escapes(defs, consts):
    src = strip_comments(read("src/output/html5_serializer.rs"))
    for fn, name in (("serialize_text_html", "htmlTextEscapes"), ("serialize_attribute_html", "htmlAttrEscapes")):
        rows = table(escape_arms(fn_body(src, fn, name), name), name)
        defs.append(lean_table(name, rows))
        consts[name] = rows


def extract_unpretty(defs, consts):
    """C18: which characters `is_whitespace` accepts and the xml:space keyword of
    `in_preserve_space` (src/unpretty.rs)."""
    src = strip_comments(read("src/unpretty.rs"))
    body = fn_body(src, "is_whitespace", "whitespaceChars")
    m = re.search(r"\.chars\(\)\s*\.all\(\s*\|\s*(\w+)\s*\|(.*)\)\s*$", body, flags=re.S)
    if not m:
        raise ExtractError("whitespaceChars: `is_whitespace` is not of the form `text.chars().all(|c| …)`")
    var, pred = m.group(1), m.group(2).strip()
    mm = re.fullmatch(r"matches!\(\s*" + re.escape(var) + r"\s*,(.*)\)", pred, flags=re.S)
    if mm:
        alts = mm.group(1)
        chars = [unescape(c) for c in re.findall(CHAR, alts)]
        rest = re.sub(CHAR, "", alts)
        if not chars or re.sub(r"[\s|]", "", rest) != "" or rest.count("|") != len(chars) - 1:
            raise ExtractError(f"whitespaceChars: the matches! pattern `{alts.strip()}` is not an alternation of char literals")
        if any(len(c) != 1 for c in chars):
            raise ExtractError("whitespaceChars: a literal of the matches! pattern is not a single character")
        unicode_ws = False
    elif re.fullmatch(re.escape(var) + r"\s*\.\s*is_whitespace\(\s*\)", pred):
        chars = []
        unicode_ws = True
    else:
        raise ExtractError(f"whitespaceChars: predicate `{pred}` is neither a matches! of char literals nor `c.is_whitespace()`")
    defs.append("/-- `unpretty::is_whitespace` uses `char::is_whitespace` (all of Unicode White_Space). -/\n"
                f"def whitespaceUnicode : Bool := {'true' if unicode_ws else 'false'}\n")
    defs.append(f"def whitespaceChars : List Char := {lean_str(''.join(chars))}\n")
    consts["whitespaceUnicode"] = unicode_ws
    consts["whitespaceChars"] = chars
    # the significance test must be the negation of the same predicate
    sig = re.sub(r"\s+", "", fn_body(src, "is_significant_text_node", "is_significant_text_node"))
    if "!is_whitespace(text)" not in sig:
        raise ExtractError("is_significant_text_node: expected `!is_whitespace(text)`")
    body = fn_body(src, "in_preserve_space", "preserveKeyword")
    lits = re.findall(r'==\s*"((?:\\.|[^"\\])*)"', body)
    if len(lits) != 1:
        raise ExtractError(f"preserveKeyword: expected exactly one `== \"…\"` comparison in in_preserve_space, found {len(lits)}")
    if "xml_space_name()" not in body or not re.search(r"for\s+\w+\s+in\s+xot\.ancestors\(", body):
        raise ExtractError("in_preserve_space: expected a walk over `xot.ancestors(node)` looking up `xml_space_name()`")
    kw = unescape(lits[0])
    defs.append(f"def preserveKeyword : List Char := {lean_str(kw)}\n")
    consts["preserveKeyword"] = kw
    # collection first, removal second
    top = re.sub(r"\s+", "", fn_body(src, "remove_insignificant_whitespace", "remove_insignificant_whitespace"))
    if not (top.index("xot.descendants(node)") < top.index("to_remove.push(") < top.index("xot.remove(node)")):
        raise ExtractError("remove_insignificant_whitespace: expected collect-then-remove over xot.descendants(node)")


EXTRACTORS = [extract_entity, extract_html_escapes, extract_unpretty]


def main():
    defs = []
    consts = {}
    errors = []
    for ex in EXTRACTORS:
        try:
            ex(defs, consts)
        except ExtractError as e:
            errors.append(str(e))
        except (OSError, KeyError, IndexError, AttributeError, ValueError) as e:
            errors.append(f"{ex.__name__}: {type(e).__name__}: {e}")
    if errors:
        print(json.dumps({"ok": False, "errors": errors}))
        return 3
    text = "/- GENERATED by extract/extract.py from /repo/src — do not edit. -/\nnamespace XotModel.Gen\n\n" + "\n".join(defs) + "\nend XotModel.Gen\n"
    out = os.path.normpath(OUT)
    old = None
    if os.path.exists(out):
        with open(out, encoding="utf-8") as f:
            old = f.read()
    changed = old != text
    if changed:
        with open(out, "w", encoding="utf-8") as f:
            f.write(text)
    print(json.dumps({"ok": True, "changed": changed, "constants": {k: (v if not isinstance(v, list) else [list(x) if isinstance(x, tuple) else x for x in v]) for k, v in consts.items()}}))
    return 0


if __name__ == "__main__":
    sys.exit(main())
