#!/bin/sh
# Drift guard for the generated PI-colon copies: regenerate into a temporary directory and diff against
# the committed lean/XotModel/Lemmas/PiColon*.lean and the generated section of lean/XotModel/Props/C01.lean.
# Needs the .olean of XotModel.Props.C03 (cd lean && lake build XotModel.Props.C03).  Exit 0 = no drift.
#   sh extract/picolon/check.sh
set -e
HERE=$(cd "$(dirname "$0")" && pwd)
ROOT=$(cd "$HERE/../.." && pwd)
TMP=$(mktemp -d "${TMPDIR:-/tmp}/picolon-check.XXXXXX")
trap 'rm -rf "$TMP"' EXIT
(cd "$ROOT/lean" && lake env lean ../extract/picolon/deps.lean > "$TMP/deps.txt")
python3 "$HERE/gen.py" "$TMP/deps.txt" "$TMP/out" > "$TMP/gen.log"
rc=0
for f in "$TMP"/out/XotModel/Lemmas/PiColon*.lean; do
  b=$(basename "$f")
  if ! diff -u "$ROOT/lean/XotModel/Lemmas/$b" "$f" > "$TMP/d.txt"; then echo "DRIFT: lean/XotModel/Lemmas/$b"; head -40 "$TMP/d.txt"; rc=1; fi
done
# committed generated copies that the generator no longer writes
for f in "$ROOT"/lean/XotModel/Lemmas/PiColon*.lean; do
  b=$(basename "$f")
  case "$b" in PiColonDefs.lean|PiColonWitness.lean) continue;; esac
  [ -f "$TMP/out/XotModel/Lemmas/$b" ] || { echo "DRIFT: lean/XotModel/Lemmas/$b is committed but not generated"; rc=1; }
done
# the section of Props/C01.lean between the markers
sed -n '/^-- BEGIN GENERATED picolon/,/^-- END GENERATED picolon/p' "$ROOT/lean/XotModel/Props/C01.lean" > "$TMP/committed-section.lean"
if ! diff -u "$TMP/committed-section.lean" "$TMP/out/XotModel/Props/C01.picolon-section.lean" > "$TMP/d.txt"; then
  echo "DRIFT: generated section of lean/XotModel/Props/C01.lean"; head -40 "$TMP/d.txt"; rc=1; fi
[ $rc -eq 0 ] && echo "picolon: no drift ($(ls "$TMP"/out/XotModel/Lemmas | wc -l) generated files + the section of Props/C01.lean)"
exit $rc
