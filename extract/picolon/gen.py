"""Regenerates lean/XotModel/Lemmas/PiColon<Module>.lean (see Lemmas/PiColonDefs.lean).

  cd lean && lake env lean ../extract/picolon/deps.lean > /tmp/picolon-deps.txt   # dependency walk
  python3 extract/picolon/gen.py /tmp/picolon-deps.txt [outdir]                   # default outdir: lean/

deps.lean lists, for every module holding a declaration that (transitively) depends on `XotModel.valueOK` and is
used by C03_accepted_roundtrip(_fragment), all declarations with their source ranges and a flag `selected`.
This script copies the selected declarations (whole `mutual` blocks), keeps `variable` / `open` / `section` lines,
renames `namespace XotModel[.X]` to `namespace XotModel.PiColon[.X]` (+ `open XotModel.X`), chains the imports, and
applies the hand patches PATCHES (the places where the NCName clause / the guard PlainPiTargets was used).
Lemmas/PiColonDefs.lean and Lemmas/PiColonWitness.lean are written by hand.
The copy of Props/C01.lean is written twice: Lemmas/PiColonC01.lean (namespace XotModel.PiColon, used by Props/C03)
and - renamed `C01_x_pi_colon`, namespace XotModel.Props - between the markers `-- BEGIN/END GENERATED picolon` of
Props/C01.lean itself (with an outdir: into <outdir>/XotModel/Props/C01.picolon-section.lean).
Drift guard (regenerate into a temporary directory, diff against the committed files): sh extract/picolon/check.sh
"""
import re, collections, os, sys
ROOT=os.path.dirname(os.path.dirname(os.path.dirname(os.path.abspath(__file__))))
LEAN=os.path.join(ROOT,'lean')
DEPS=sys.argv[1]
OUT=sys.argv[2] if len(sys.argv)>2 else LEAN
rows=[l.rstrip('\n').split('\t') for l in open(DEPS) if l.count('\t')==4]

PATCHES={
 'PiColonSerTokensLexOK':[
  ("        have hname := ncNameNE_nameOK _ hval.1.1.2","        have hname := hval.1.1.2  -- ORIGINAL: ncNameNE_nameOK _ hval.1.1.2 (the only use of the NCName clause)")],
 'PiColonRoundTripEncode':[
  ("""  simp only [valueOK, ncNameNE, Bool.and_eq_true, Bool.not_eq_true', List.isEmpty_eq_false_iff, beq_iff_eq] at h
  exact ⟨EnvFacts.name_lt_of_ne h.1.1.2.2, h.1.1.1⟩""","""  simp only [valueOK, Bool.and_eq_true, beq_iff_eq] at h
  -- ORIGINAL: the NCName clause gave "not empty"; so does `nameOK`
  have hne : env.localName target ≠ [] := fun he => by
    have hn := h.1.1.2
    rw [he] at hn
    simp [nameOK] at hn
  exact ⟨EnvFacts.name_lt_of_ne hne, h.1.1.1⟩""")],
 'PiColonAcceptedTop':[
  ("    (h2 : plainPiTarget env v ks = true) : valueOK env v = true := by","    : valueOK env v = true := by  -- ORIGINAL: extra hypothesis plainPiTarget"),
  ("    obtain ⟨_, a2, _, a4, a5⟩ := ha\n    simp only [plainPiTarget] at h2\n","    obtain ⟨_, a2, a3, a4, a5⟩ := ha\n"),
  ("    refine ⟨⟨⟨a2, h2⟩, by simpa [isReservedPiTarget] using a5⟩, ?_⟩","    refine ⟨⟨⟨a2, a3⟩, by simpa [isReservedPiTarget] using a5⟩, ?_⟩  -- ORIGINAL: h2 (NCName); here nameOK from the tokenizer"),
  ("    t.allNodes (plainPiTarget env) = true → t.allNodes (nodeOK env) = true\n  | .node v ks, st, hg, ha, hs, h1, h2 => by","    t.allNodes (nodeOK env) = true\n  | .node v ks, st, hg, ha, hs, h1 => by"),
  ("    rw [allNodes_node, Bool.and_eq_true, List.all_eq_true] at h1 h2 ⊢","    rw [allNodes_node, Bool.and_eq_true, List.all_eq_true] at h1 ⊢"),
  ("valueOK_of_acc hf hg' ha.1 h1.1 h2.1⟩","valueOK_of_acc hf hg' ha.1 h1.1⟩"),
  ("(hs.2 k hk) (h1.2 k hk) (h2.2 k hk)","(hs.2 k hk) (h1.2 k hk)"),
  ("  rcases lookupPrefix_frames fs ","  rcases Accepted.lookupPrefix_frames fs ")],
 'PiColonAcceptedMain':[
  ("\n    (hpi : PlainPiTargets p.env p.tree = true) :"," :"),
  (" hg hpi"," hg")],
}
bymod=collections.defaultdict(list)
for m,a,b,n,sel in rows:
    bymod[m].append((int(a),int(b),n,sel=='true'))
# topological order: use a fixed known order (import order), computed from import lines transitively
mods=[m for m in bymod if m not in ('XotModel.Model.SerTokens','XotModel.Props.C03')]
def imports(m):
    f=os.path.join(LEAN,m.replace('.','/')+'.lean')
    return [l.split()[1] for l in open(f) if l.startswith('import ')]
cache={}
def closure(m):
    if m in cache: return cache[m]
    cache[m]=set()
    s=set()
    for i in imports(m):
        if i.startswith('XotModel'):
            s.add(i); s|=closure(i)
    cache[m]=s
    return s
order=sorted(mods,key=lambda m: (len(closure(m)),m))
def newname(m):
    base=m.split('.')[-1]
    return 'XotModel.Lemmas.PiColon'+base
TOP=re.compile(r'^(theorem|def|example|/--|/-!|/-|namespace|end|open|section|variable|mutual|instance|structure|inductive|@\[|private|set_option|attribute|abbrev|#)')
BEGIN='-- BEGIN GENERATED picolon (extract/picolon/gen.py; do not edit between the markers)'
END='-- END GENERATED picolon'
def copied_names():
    """Declarations that exist in the namespace XotModel.PiColon (the copies written so far + PiColonDefs)."""
    names=set()
    d=os.path.join(OUT,'XotModel','Lemmas')
    files=[os.path.join(d,f) for f in os.listdir(d) if f.startswith('PiColon') and f not in ('PiColonC01.lean','PiColonWitness.lean')]
    files.append(os.path.join(LEAN,'XotModel','Lemmas','PiColonDefs.lean'))
    for f in files:
        names|=set(re.findall(r'^\s*(?:private\s+)?(?:theorem|def|abbrev|structure|inductive)\s+(\S+)',open(f).read(),flags=re.M))
    return names
def c01_section(text):
    """The Props.C01 copy once more, for the last section of Props/C01.lean itself (Lemmas/PiColonC01.lean imports
    Props.C01, so Props/C01.lean cannot import it): the same proof texts in the namespace XotModel.Props, the
    theorems renamed `C01_x` -> `C01_x_pi_colon`, every name that has a copy in XotModel.PiColon qualified."""
    body=text.split('open XotModel XotModel.Gen XotModel.Props\n',1)[1].split('\nend XotModel.PiColon')[0]
    own=re.findall(r'^theorem\s+(\S+)',body,flags=re.M)
    for n in sorted(copied_names(),key=len,reverse=True):
        if n in own: continue
        body=re.sub(r'(?<![\w.])'+re.escape(n)+r'(?![\w])','PiColon.'+n,body)
    for n in sorted(own,key=len,reverse=True):
        body=re.sub(r'(?<![\w.])'+re.escape(n)+r'(?![\w])',n+'_pi_colon',body)
    sec=BEGIN+'\nnamespace XotModel.Props\nopen XotModel XotModel.Gen\n'+body.rstrip('\n')+'\n\nend XotModel.Props\n'+END+'\n'
    if OUT==LEAN:
        f=os.path.join(LEAN,'XotModel','Props','C01.lean')
        src=open(f).read()
        assert BEGIN in src and END in src, 'markers missing in Props/C01.lean'
        a=src.index(BEGIN); b=src.index(END)+len(END)+1
        open(f,'w').write(src[:a]+sec+src[b:])
    else:
        f=os.path.join(OUT,'XotModel','Props','C01.picolon-section.lean')
        os.makedirs(os.path.dirname(f),exist_ok=True)
        open(f,'w').write(sec)
    print('Props/C01 section', sec.count('\n'))

prev=None
for m in order:
    f=os.path.join(LEAN,m.replace('.','/')+'.lean')
    lines=open(f).read().split('\n')
    n=len(lines)
    keep=[True]*(n+2)   # 1-based
    decls=bymod[m]
    isprops = m.startswith('XotModel.Props')
    if isprops:
        keep=[False]*(n+2)
        for a,b,nm,sel in decls:
            if sel:
                for i in range(a,b+1): keep[i]=True
    else:
        for a,b,nm,sel in decls:
            if not sel:
                for i in range(a,b+1): keep[i]=False
        for a,b,nm,sel in decls:
            if sel:
                for i in range(a,b+1): keep[i]=True
        # mutual blocks
        i=1
        while i<=n:
            if lines[i-1].strip()=='mutual':
                j=i+1
                while lines[j-1].strip()!='end': j+=1
                anysel=any(sel and a>=i and b<=j for a,b,nm,sel in decls)
                for k in range(i,j+1): keep[k]=anysel
                i=j+1
            else: i+=1
        # drop imports and leading module comment
        i=1
        if lines[0].startswith('/-'):
            while not lines[i-1].rstrip().endswith('-/'):
                keep[i]=False; i+=1
            keep[i]=False
        for i in range(1,n+1):
            if lines[i-1].startswith('import '): keep[i]=False
    out=[]
    for i in range(1,n+1):
        if keep[i]: out.append(lines[i-1])
    body='\n'.join(out)
    if isprops:
        body='namespace XotModel.PiColon\nopen XotModel XotModel.Gen XotModel.Props\n\n'+body+'\n\nend XotModel.PiColon\n'
    else:
        def ns(mo):
            suf=mo.group(1) or ''
            r='namespace XotModel.PiColon'+suf
            if suf: r+='\nopen XotModel'+suf
            return r
        body=re.sub(r'^namespace XotModel(\.\S+)?$',ns,body,flags=re.M)
        body=re.sub(r'^end XotModel(\.\S+)?$',lambda mo:'end XotModel.PiColon'+(mo.group(1) or ''),body,flags=re.M)
    body=re.sub(r'\n{3,}','\n\n',body)
    hdr='/-\n  GENERATED COPY (wt-c17str) of the declarations of '+m+' that depend on `valueOK`, restated in the\n  namespace `XotModel.PiColon`, where `valueOK` asks of a PI target what the tokenizer\'s `consume_name` accepts\n  (`nameOK`: colons allowed) instead of an NCName (Lemmas/PiColonDefs.lean).  Proof texts unchanged except where noted.\n-/\n'
    imps=['import '+m]
    imps.append('import '+(newname(prev) if prev else 'XotModel.Lemmas.PiColonDefs'))
    # also import PiColon versions of all set-modules in closure handled by chain
    text=hdr+'\n'.join(imps)+'\n\n'+body.strip('\n')+'\n'
    for a,b in PATCHES.get(newname(m).split('.')[-1],[]):
        assert a in text,(newname(m),a)
        text=text.replace(a,b)
    newf=os.path.join(OUT,newname(m).replace('.','/')+'.lean')
    os.makedirs(os.path.dirname(newf),exist_ok=True)
    open(newf,'w').write(text)
    print(newname(m), len(out))
    if m=='XotModel.Props.C01':
        c01_section(text)
    prev=m
