import Lean
import XotModel.Props.C03
open Lean Elab Command Meta

partial def closure (env : Environment) (roots : List Name) : NameSet := Id.run do
  let mut seen : NameSet := {}
  let mut todo := roots
  while !todo.isEmpty do
    match todo with
    | [] => pure ()
    | n :: rest =>
      todo := rest
      if seen.contains n then continue
      seen := seen.insert n
      if let some ci := env.find? n then
        let used := ci.getUsedConstantsAsSet
        for u in used.toList do
          if !seen.contains u then todo := u :: todo
  return seen

elab "#pideps" : command => do
  let env ← getEnv
  let roots := [`XotModel.Props.C03_accepted_roundtrip, `XotModel.Props.C03_accepted_roundtrip_fragment]
  let all := closure env roots
  -- which of them depend on valueOK
  let target := `XotModel.valueOK
  let mut dep : NameSet := {}
  -- memo via fixpoint: iterate
  let names := all.toList
  let mut changed := true
  dep := dep.insert target
  while changed do
    changed := false
    for n in names do
      if dep.contains n then continue
      if let some ci := env.find? n then
        if ci.getUsedConstantsAsSet.toList.any dep.contains then
          dep := dep.insert n
          changed := true
  let mods : List Name := dep.toList.filterMap (fun n => (env.getModuleIdxFor? n).map (fun i => env.header.moduleNames[i.toNat]!))
  let modSet : NameSet := mods.foldl (fun s m => s.insert m) {}
  let mut out : Array (String × Nat × Nat × Name × Bool) := #[]
  for (n, _) in env.constants.map₁.toList do
    let some modIdx := env.getModuleIdxFor? n | continue
    let modName := env.header.moduleNames[modIdx.toNat]!
    if !modSet.contains modName then continue
    if let some r ← findDeclarationRanges? n then
      out := out.push (toString modName, r.range.pos.line, r.range.endPos.line, n, dep.contains n)
    else if dep.contains n then
      IO.println s!"NORANGE\t{modName}\t{n}"
  let sorted := out.qsort (fun a b => a.1 < b.1 || (a.1 == b.1 && a.2.1 < b.2.1))
  for (m, a, b, n, sel) in sorted do
    IO.println s!"{m}\t{a}\t{b}\t{n}\t{sel}"

#pideps
