#!/bin/bash
# seedrun.sh <repo-worktree> <patch.diff> <tier> Cxx [Cyy ...]
# Runs the checks against a scratch worktree of faassen/xot with a seeded change applied,
# from a scratch worktree of /verif (so /repo and /verif themselves stay untouched while
# other work is going on).  Prints one line per property: DETECTED / MISSED.
set -u
WT="$1"; PATCH="$2"; TIER="$3"; shift 3
RUN=/tmp/seedrun/verif
if [ ! -d "$RUN" ]; then
  mkdir -p /tmp/seedrun && git -C /verif worktree add -q --detach "$RUN" HEAD
else
  git -C "$RUN" reset -q --hard && git -C "$RUN" checkout -q -f --detach "$(git -C /verif rev-parse HEAD)"
fi
sed -i "s#path = \"[^\"]*\"#path = \"$WT\"#" "$RUN/harness/Cargo.toml"
git -C "$WT" checkout -q -- . && git -C "$WT" apply "$PATCH" || { echo "patch does not apply"; exit 2; }
for P in "$@"; do
  OUT=$(cd "$RUN" && XOT_REPO="$WT" python3 bin/check.py "$P" --tier "$TIER" 2>&1)
  RC=$?
  if [ $RC -ne 0 ]; then echo "$P DETECTED: $(echo "$OUT" | grep VIOLATION | head -1)"; else echo "$P MISSED"; fi
  echo "$OUT" | tail -1
done
git -C "$WT" checkout -q -- .
git -C "$RUN" checkout -q -- harness/Cargo.toml lean/XotModel/Generated.lean 2>/dev/null
