#!/usr/bin/env python3
"""manifest_add.py Cxx "<level text>" — add (or refresh) a check entry in MANIFEST.json."""
import json, sys
pid, text = sys.argv[1], sys.argv[2]
m = json.load(open('MANIFEST.json'))
m['checks'] = [c for c in m['checks'] if c['property_id'] != pid]
m['checks'].append({
    "property_id": pid,
    "quick_cmd": f"python3 bin/check.py {pid} --tier quick",
    "thorough_cmd": f"python3 bin/check.py {pid} --tier thorough",
    "evidence_file": f"evidence/{pid}.json",
    "replay_cmd_template": "python3 bin/check.py --replay {path}",
    "engine": "lean-model",
    "level_claimed": {"category": "proof", "text": text, "design_ref": f"DESIGN.md section 7, {pid}; section 12"},
    "level_note": "Trusted: Lean kernel, propext/Classical.choice/Quot.sound, extract.py, the correspondence harness; indextree/xmlparser/encoding_rs modelled by contract. evidence.coverage.proved_scope / not_proved say exactly which theorems are proved.",
    "technique": "Lean 4 proof + source-extracted constants + differential correspondence (model vs real crate) + implementation oracle",
})
m['checks'].sort(key=lambda c: c['property_id'])
claimed = {c['property_id'] for c in m['checks']}
m['not_applicable'] = [x for x in m.get('not_applicable', []) if x['property_id'] not in claimed]
for e in m['engines']:
    e['serves_properties'] = sorted(claimed)
json.dump(m, open('MANIFEST.json', 'w'), indent=1)
print("claimed:", sorted(claimed))
