#!/usr/bin/env python3
"""Normalise KNOWN_FINDINGS.jsonl after a merge: drop `known` entries whose signature is also
recorded as `fixed`, and exact duplicates."""
import json
lines = [l for l in open('KNOWN_FINDINGS.jsonl').read().split("\n") if l.strip()]
hdr = [l for l in lines if l.startswith("#")]
ent = [json.loads(l) for l in lines if not l.startswith("#")]
fixed = {j["signature"] for j in ent if j["status"] == "fixed"}
out, seen = [], set()
for j in ent:
    if j["status"] == "known" and j["signature"] in fixed:
        continue
    key = (j["property"], j["signature"], j["status"])
    if key in seen:
        continue
    seen.add(key)
    out.append(j)
open('KNOWN_FINDINGS.jsonl', 'w').write("\n".join(hdr[:1] + [json.dumps(j) for j in out]) + "\n")
print("known:", [j["signature"] for j in out if j["status"] == "known"])
