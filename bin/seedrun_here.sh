#!/bin/bash
# seedrun_here.sh <repo-worktree> <patch.diff> <tier> Cxx [Cyy ...]
# Like seedrun.sh, but for the verification repository (or worktree) this script lives in, not
# /verif: the checks run from a plain snapshot (git archive) of its committed HEAD under
# $SEEDRUN_DIR (default /tmp/seedrun-here/verif), with the build caches copied over, so neither
# this worktree, nor /verif, nor /repo is touched.  Prints one line per property: DETECTED / MISSED.
set -u
WT="$1"; PATCH="$2"; TIER="$3"; shift 3
HERE="$(cd "$(dirname "$0")/.." && pwd)"
RUN="${SEEDRUN_DIR:-/tmp/seedrun-here/verif}"
rm -rf "$RUN" && mkdir -p "$RUN" && git -C "$HERE" archive HEAD | tar -x -C "$RUN"
[ -d "$HERE/lean/.lake" ] && cp -a "$HERE/lean/.lake" "$RUN/lean/.lake"
[ -d "$HERE/.build" ] && cp -a "$HERE/.build" "$RUN/.build"
sed -i "s#path = \"[^\"]*\"#path = \"$WT\"#" "$RUN/harness/Cargo.toml"
git -C "$WT" checkout -q -- . && git -C "$WT" apply "$PATCH" || { echo "patch does not apply"; exit 2; }
for P in "$@"; do
  OUT=$(cd "$RUN" && XOT_REPO="$WT" python3 bin/check.py "$P" --tier "$TIER" 2>&1)
  RC=$?
  if [ $RC -ne 0 ]; then echo "$P DETECTED: $(echo "$OUT" | grep VIOLATION | head -1)"; else echo "$P MISSED"; fi
  echo "$OUT" | tail -1
done
git -C "$WT" checkout -q -- .
