#!/bin/bash
# seedconfirm.sh <repo-worktree> <Cxx-name>: confirm a seeded change (suite passes with it, demo
# fails with it, demo passes without it) and store it under /verif/seeded/<name>/.
WT="$1"; NAME="$2"; S="$WT/SEED"
cd "$WT" && git checkout -q -- . && rm -f tests/seed_demo.rs
git apply "$S/patch.diff" || { echo "patch does not apply"; exit 2; }
SUITE=$(CARGO_NET_OFFLINE=true cargo test --offline 2>&1 | grep -E '^test result' | awk '{p+=$4; f+=$6} END {print p" passed "f" failed"}')
cp "$S/seed_demo.rs" tests/seed_demo.rs
DEMO_WITH=$(CARGO_NET_OFFLINE=true cargo test --offline --test seed_demo 2>&1 | grep -E '^test result' | head -1)
git checkout -q -- . 
DEMO_WITHOUT=$(CARGO_NET_OFFLINE=true cargo test --offline --test seed_demo 2>&1 | grep -E '^test result' | head -1)
rm -f tests/seed_demo.rs
echo "suite with change: $SUITE"; echo "demo with change: $DEMO_WITH"; echo "demo without change: $DEMO_WITHOUT"
mkdir -p /verif/seeded/$NAME && cp "$S/patch.diff" "$S/seed_demo.rs" /verif/seeded/$NAME/
python3 - "$S/meta.json" "/verif/seeded/$NAME/meta.json" "$SUITE" "$DEMO_WITH" "$DEMO_WITHOUT" "$(git -C $WT rev-parse --short HEAD)" <<'PY'
import json,sys
src,dst,suite,dw,dwo,head=sys.argv[1:7]
m=json.load(open(src))
m["confirmed_by_coordinator"]={"repo_commit":head,"existing_suite_with_change":suite,"demo_with_change":dw,"demo_without_change":dwo}
json.dump(m,open(dst,"w"),indent=1)
PY
