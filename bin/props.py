"""Per-property configuration of check.py: suites (name, quick count, thorough count),
what is proved, what is modelled rather than verified."""

EXTERNAL = [
    "modelled, not verified: xmlparser 0.13.6 tokenizer, indextree 4.7.2 arena, encoding_rs/xhtmlchardet decoders, genawaiter, ahash (DESIGN.md section 6)",
]

PROPS = {
    "C01": {
        "suites": [("entity", 3000, 60000)],
        "show_constants": True,
        "proved_scope": "character level: parse_content(serialize_text s)=s and parse_content(serialize_attribute s)=s for every string; escaped output free of raw '<' / '\"' / TAB / LF / CR",
        "not_proved": "tree level (C01_main): serializer + tokenizer contract + builder",
        "modelled": EXTERNAL,
        "assumptions": ["NoopNormalizer (identity) is the normalizer"],
    },
    "C14": {
        "suites": [("entity", 3000, 60000)],
        "show_constants": True,
        "proved_scope": "character level: CDATA sections of serialize_cdata concatenate to the input and contain no ]]>; unescaped_gt text decodes to the input and contains no ]]>",
        "not_proved": "tree level option independence; Pretty placement rules",
        "modelled": EXTERNAL,
        "assumptions": ["NoopNormalizer (identity) is the normalizer"],
    },
    "C04": {
        "suites": [("forest", 300, 6000)],
        "proved_scope": "invariant Forest.inv defined (decidable); proved: holds initially, preserved by set_text_consolidation; value updates never create, lose or reorder a handle. The invariant is additionally evaluated on the model state after every step of every correspondence history and compared with an independent validator on the real forest",
        "not_proved": "preservation of Forest.inv by each moving / creating / removing operation (C04_step), hence C04_reach by induction; monotonicity of is_removed (holds in the model by construction of fresh handles, not yet stated as a theorem)",
        "modelled": EXTERNAL + ["handles are creation-order numbers; indextree slot reuse and the 15-bit stamp are below the model"],
        "assumptions": ["arguments are live handles"],
    },
    "C06": {
        "suites": [("forest", 300, 6000)],
        "proved_scope": "every refusal produced by the argument checks (structure check, sibling reference check, replace / element_wrap / element_unwrap pre-checks) returns the forest unchanged; same-position append is the identity",
        "not_proved": "that no error can arise after the checks (late NodeError unreachable under the invariant) and absence of panics under the invariant",
        "modelled": EXTERNAL,
        "assumptions": ["arguments are live handles"],
    },
    "C11": {
        "suites": [("forest", 300, 6000)],
        "proved_scope": "updating an existing key keeps every node and handle in place; removing an absent key is the identity; element-only accessors panic without change on non-elements. Agreement of the read-only and the mutable view is checked on the implementation after every step (both Rust copies against the model's single definition)",
        "not_proved": "refinement of insert/remove/clear/insert_node to an insertion-ordered association list (C11_refine) and C11_order",
        "modelled": EXTERNAL,
        "assumptions": ["arguments are live handles"],
    },
    "C12": {
        "suites": [("fclone", 400, 6000), ("forest", 300, 6000)],
        "proved_scope": "TODO",
        "not_proved": "TODO",
        "modelled": EXTERNAL + ["handles are creation-order numbers; indextree slot reuse is below the model",
                                "inherited_prefixes returns a hash map: its iteration order is a parameter of the model (the harness reports the order it observed, the driver checks it is a permutation)"],
        "assumptions": ["the source is a live handle of a forest satisfying Forest.Inv"],
    },
}
