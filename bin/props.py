"""Per-property configuration of check.py: suites (name, quick count, thorough count),
what is proved, what is modelled rather than verified."""

EXTERNAL = [
    "modelled, not verified: xmlparser 0.13.6 tokenizer, indextree 4.7.2 arena, encoding_rs/xhtmlchardet decoders, genawaiter, ahash (DESIGN.md section 6)",
]

PROPS = {
    "C01": {
        "suites": [("entity", 3000, 60000)],
        "show_constants": True,
        "proved_scope": "character level: parse_content(serialize_text s)=s and parse_content(serialize_attribute s)=s for every string; escaped output free of raw '<' / '\"' / TAB / LF / CR",
        "not_proved": "tree level (C01_main): serializer + tokenizer contract + builder",
        "modelled": EXTERNAL,
        "assumptions": ["NoopNormalizer (identity) is the normalizer"],
    },
    "C14": {
        "suites": [("entity", 3000, 60000)],
        "show_constants": True,
        "proved_scope": "character level: CDATA sections of serialize_cdata concatenate to the input and contain no ]]>; unescaped_gt text decodes to the input and contains no ]]>",
        "not_proved": "tree level option independence; Pretty placement rules",
        "modelled": EXTERNAL,
        "assumptions": ["NoopNormalizer (identity) is the normalizer"],
    },
    "C09": {
        "suites": [("scope", 1500, 6000)],
        "proved_scope": "for every tree, node, prefix, namespace, name: namespaces_in_scope enumerates exactly scopeSpec (nearest declaration wins; each prefix once; xmlns=\"\" absent; xml present) [C09_in_scope]; namespace_for_prefix = scopeSpec with bindings to the no-namespace id hidden [C09_ns_for_prefix, _partial, _false]; is_prefix_defined implied by a binding; prefix_for_namespace sound for real namespaces [C09_prefix_sound]; complete exactly when no prefix is declared twice among the declarations visited until the first binding [C09_prefix_complete_partial, C09_prefix_guard_exact] and false in general [C09_prefix_complete_false, closed witness]; full_name spells name_ref's prefix; the reported prefix resolves back by the rule for the node's kind outside the two defects [C09_fullname_element_partial, _attribute_partial, _false_attribute, _false_element]; node_name_ref = node_name + name_ref; inherited_prefixes is a subset of the parent's scope; unresolved_namespaces = a recursive function of the subtree's own declarations started from an empty frame [C09_unresolved_recursive] with closed witnesses of its two defects [C09_unresolved_reports_no_namespace, _xml_namespace]; FullnameSerializer top frame = nearest-declaration bindings of the pushed frames given unique prefixes per element [C09_stack_invariant]",
        "not_proved": "C09_unresolved / C09_inherited exactness against a path-indexed specification (\"exactly the namespaces of names without a usable prefix inside the subtree\": false as written, see the known findings; the recursive characterisation is proved, the spec-level iff is not); the link from the FStack invariant to the xml/html serialisers belongs to C10",
        "modelled": EXTERNAL,
        "assumptions": ["ids of the built-in prefixes / namespaces as registered by Xot::new (empty prefix 0, xml prefix 1, no namespace 0, XML namespace 1)",
                        "hash-set / hash-map results (prefix_for_namespace's seen set, Prefixes) modelled as lists; inherited_prefixes compared sorted"],
    },
    "C15": {
        "suites": [("scope", 1500, 6000)],
        "proved_scope": "for every tree, node and vocabulary: deduplicate_namespaces only deletes namespace-node children: per node the declarations after are a sublist of those before [C15_subset, C15_same_nodes], the tree without namespace nodes is unchanged [C15_frame]; deduplicate_namespaces(root) equals a recursive rebuild of the tree [C15_recursive_form]; under NoShadowing (no prefix declared twice on any root-to-node path, xml not declared) every name that to_string could write before deduplicate_namespaces(root) can be written after [C15_serialises_partial]; 'second call removes nothing' and 'still serialises' are false as written [C15_idem_false, C15_serialises_false, closed witnesses evaluated in the model; the model of to_string's MissingPrefix outcome (namesWritable) is correspondence-checked by the `scope writable` requests]",
        "not_proved": "C15_serialises_partial for deduplicate_namespaces on an inner node (proved for the root call); C15_idem_partial (idempotence also fails without shadowing: removing xmlns=\"A\" un-marks the tracker entry that protected a prefixed declaration below); 'reparses deep_equal' needs the serialiser / parser layers (C01, C10): here only 'every name has a prefix' (the only way to_string can fail on names)",
        "modelled": EXTERNAL,
        "assumptions": ["removing a namespace node never triggers text consolidation (its siblings of the same category are namespace nodes): read off Xot::remove / previous_sibling / next_sibling"],
    },
}
