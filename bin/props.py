"""Per-property configuration of check.py: suites (name, quick count, thorough count),
what is proved, what is modelled rather than verified."""

EXTERNAL = [
    "modelled, not verified: xmlparser 0.13.6 tokenizer, indextree 4.7.2 arena, encoding_rs/xhtmlchardet decoders, genawaiter, ahash (DESIGN.md section 6)",
]

PROPS = {
    "C01": {
        "suites": [("entity", 3000, 60000)],
        "show_constants": True,
        "proved_scope": "character level: parse_content(serialize_text s)=s and parse_content(serialize_attribute s)=s for every string; escaped output free of raw '<' / '\"' / TAB / LF / CR",
        "not_proved": "tree level (C01_main): serializer + tokenizer contract + builder",
        "modelled": EXTERNAL,
        "assumptions": ["NoopNormalizer (identity) is the normalizer"],
    },
    "C14": {
        "suites": [("entity", 3000, 60000)],
        "show_constants": True,
        "proved_scope": "character level: CDATA sections of serialize_cdata concatenate to the input and contain no ]]>; unescaped_gt text decodes to the input and contains no ]]>",
        "not_proved": "tree level option independence; Pretty placement rules",
        "modelled": EXTERNAL,
        "assumptions": ["NoopNormalizer (identity) is the normalizer"],
    },
    "C04": {
        "suites": [("forest", 300, 6000)],
        "proved_scope": "invariant Forest.inv defined (decidable); proved: holds initially, preserved by set_text_consolidation; value updates never create, lose or reorder a handle. The invariant is additionally evaluated on the model state after every step of every correspondence history and compared with an independent validator on the real forest",
        "not_proved": "preservation of Forest.inv by each moving / creating / removing operation (C04_step), hence C04_reach by induction; monotonicity of is_removed (holds in the model by construction of fresh handles, not yet stated as a theorem)",
        "modelled": EXTERNAL + ["handles are creation-order numbers; indextree slot reuse and the 15-bit stamp are below the model"],
        "assumptions": ["arguments are live handles"],
    },
    "C06": {
        "suites": [("forest", 300, 6000)],
        "proved_scope": "every refusal produced by the argument checks (structure check, sibling reference check, replace / element_wrap / element_unwrap pre-checks) returns the forest unchanged; same-position append is the identity",
        "not_proved": "that no error can arise after the checks (late NodeError unreachable under the invariant) and absence of panics under the invariant",
        "modelled": EXTERNAL,
        "assumptions": ["arguments are live handles"],
    },
    "C11": {
        "suites": [("forest", 300, 6000)],
        "proved_scope": "updating an existing key keeps every node and handle in place; removing an absent key is the identity; element-only accessors panic without change on non-elements. Agreement of the read-only and the mutable view is checked on the implementation after every step (both Rust copies against the model's single definition)",
        "not_proved": "refinement of insert/remove/clear/insert_node to an insertion-ordered association list (C11_refine) and C11_order",
        "modelled": EXTERNAL,
        "assumptions": ["arguments are live handles"],
    },
    "C18": {
        "suites": [("fws", 1500, 20000), ("forest", 300, 6000)],
        "proved_scope": "for every forest with the C04 invariant in which consolidation has never been off and every live start node: the collected list and the removed handles are exactly the specification's set (whitespace-only text, no sibling text with other content, innermost xml:space not preserve), the subtree left is specStrip of the subtree (C18_exact); values, parents, document order of all other nodes, other trees, and the invariant are kept (C18_frame); a second application is the identity (C18_idem); no node is collected twice, every remove of the loop is a plain remove_subtree (no consolidation), nodes still to be removed are untouched (C18_safe). Obligations: the extracted whitespace characters are the four XML ones and the model and the specification test exactly them; the extracted keyword is the specification's. Closed counterexample for the boundary (consolidation has been off): C18_adjacent_text_counterexample",
        "not_proved": "the case consolidation has been off (adjacent text nodes): the statement holds there except for a text start node between two text nodes (observed on model and crate, exhaustively for <= 4 children), not proved",
        "modelled": EXTERNAL,
        "assumptions": ["the start node is live", "Forest.Inv holds (C04; preservation by every operation is C04's obligation)", "name id 0 is xml:space (Xot::new registers it first; checked by the harness vocabulary)"],
    },
}
