"""Per-property configuration of check.py, one JSON file per property under bin/props/
(suites = [name, quick count, thorough count]; proved_scope / not_proved; modelled; assumptions)."""
import glob
import json
import os

EXTERNAL = [
    "modelled, not verified: xmlparser 0.13.6 tokenizer, indextree 4.7.2 arena, encoding_rs/xhtmlchardet decoders, genawaiter, ahash (DESIGN.md section 6)",
]

PROPS = {
    "C01": {
        "suites": [("entity", 3000, 60000), ("rt", 2500, 60000)],
        "show_constants": True,
        "proved_scope": "character level: parse_content(serialize_text s)=s and parse_content(serialize_attribute s)=s for every string; escaped output free of raw '<' / '\"' / TAB / LF / CR",
        "not_proved": "tree level (C01_main): serializer + tokenizer contract + builder",
        "modelled": EXTERNAL,
        "assumptions": ["NoopNormalizer (identity) is the normalizer"],
    },
    "C08": {
        "suites": [("idmap", 200, 3000)],
        "show_constants": True,
        "proved_scope": "generic in the id width: table invariant (by_value = graph of v -> to_id(index in by_id), by_id duplicate-free) holds of Xot::new() and is preserved by every registration; with at most 2^bits distinct values: equal ids <=> equal values (names: (local, namespace id)), get_value/get_id inverse, read-only lookups find exactly the registered values; id/value pairs persist under any further history (no bound); built-ins distinct and resolving to the standard strings (decide over builtinRegistrations); clone answers alike; the unbounded claim is refuted at every width (C08_wraps, C08_full_false) and at the extracted widths from Xot::new() (n65534 -> xml:space / empty prefix / no namespace)",
        "not_proved": "that parse()/html5() perform exactly the get_id_mut calls the harness observes (covered by the `implicit` correspondence requests, not by a parser model); consequences for trees (names compare equal across trees iff expanded names equal) are the table statement plus the tree layers of C01/C09",
        "modelled": EXTERNAL + ["ahash HashMap as a finite map (get = first match of an association list, insert = cons)"],
        "assumptions": ["derived Clone of Vec/HashMap/String yields equal values (extractor checks the derives)",
                        "release profile: `index as u16` truncates silently (it does in every profile)"],
    },
    "C14": {
        "suites": [("entity", 3000, 60000)],
        "show_constants": True,
        "proved_scope": "character level: CDATA sections of serialize_cdata concatenate to the input and contain no ]]>; unescaped_gt text decodes to the input and contains no ]]>",
        "not_proved": "tree level option independence; Pretty placement rules",
        "modelled": EXTERNAL,
        "assumptions": ["NoopNormalizer (identity) is the normalizer"],
    },
    "C13": {
        "suites": [("cmp", 900, 12000)],
        "proved_scope": (
            "for ALL trees, filters and text comparisons: advanced_deep_equal = structural equality of the filtered forests "
            "(C13_advanced; Rust zip semantics included). For structurally valid trees (children ordered namespace/attribute/normal, "
            "unique attribute names per node, attribute/namespace nodes are leaves) and normal compared nodes: "
            "deep_equal a b <-> canon a = canon b (C13_iff), hence reflexive / symmetric / transitive; insensitive to namespace "
            "nodes anywhere (declarations, prefixes: C13_ignores_declarations, C13_ignores_prefix) and to the attribute order of the "
            "compared node (C13_ignores_attribute_order; deeper levels via canon, which sorts attributes); with any text comparison "
            "the canonical forms are related up to cmp (C13_advanced_all); deep_equal_xpath on element/element and document/document = "
            "Canon.rel cmp of the canonical forms with everything but elements and text discarded, otherwise CValue.rel cmp of the two "
            "nodes (C13_xpath, C13_xpath_other); deep_equal_children <-> equal canonical child sequences (C13_children); "
            "shallow_equal <-> equal canonical values, for every node kind (C13_shallow); shallow_equal_ignore_attributes <-> equal "
            "canonical values with the listed names removed, for ignore lists WITHOUT repeated names (C13_shallow_ignore_partial); "
            "string_value of document/element = concatenated text of the canonical form, other nodes their own content "
            "(C13_string_value, C13_string_value_other). Proved negations with closed witnesses: C13_iff_Statement_false "
            "(attribute / namespace nodes always deep_equal: C13_abnormal_always_equal, C13_abnormal_vs_normal), "
            "C13_shallow_ignore_Statement_false (repeated name in the ignore list, wrong false and wrong true)."
        ),
        "not_proved": (
            "no statement about structurally invalid trees beyond C13_advanced (ill-ordered children, duplicate attribute names, "
            "children under attribute/namespace nodes); attribute-order insensitivity below the compared node is only available "
            "through C13_iff + the definition of canon, not as a separate theorem; deep_equal_xpath(==) a b = deep_equal of the "
            "trees with comments/PIs removed is not derived (needs validity of the stripped tree), C13_xpath states the relation on "
            "canonical forms instead; Canon.rel compares attribute maps by size + lookup (finite-map relation), its equivalence with a "
            "position-wise comparison of the sorted lists is not proved; equivalence-relation laws for custom text comparisons are "
            "not claimed (they depend on cmp); text_content / text_content_str are modelled and in the correspondence suite but have "
            "no theorem; the dev-profile behaviour of the usize subtraction (panic on overflow) is not modelled (release: wrapping); "
            "name id <-> expanded name is C08"
        ),
        "modelled": EXTERNAL,
        "assumptions": [
            "a name id stands for its expanded name (local name, namespace URI): interning is one-to-one (C08)",
            "harness built with overflow-checks = false: usize arithmetic wraps modulo 2^64",
            "text comparisons and filters are pure total functions of their arguments (filter of the node's own subtree)",
            "attribute lists have fewer than 2^64 entries (hypothesis of C13_shallow*)",
        ],
    },
    "C04": {
        "suites": [("forest", 300, 6000)],
        "proved_scope": "invariant Forest.inv defined (decidable); proved: holds initially, preserved by set_text_consolidation; value updates never create, lose or reorder a handle. The invariant is additionally evaluated on the model state after every step of every correspondence history and compared with an independent validator on the real forest",
        "not_proved": "preservation of Forest.inv by each moving / creating / removing operation (C04_step), hence C04_reach by induction; monotonicity of is_removed (holds in the model by construction of fresh handles, not yet stated as a theorem)",
        "modelled": EXTERNAL + ["handles are creation-order numbers; indextree slot reuse and the 15-bit stamp are below the model"],
        "assumptions": ["arguments are live handles"],
    },
    "C06": {
        "suites": [("forest", 300, 6000)],
        "proved_scope": "every refusal produced by the argument checks (structure check, sibling reference check, replace / element_wrap / element_unwrap pre-checks) returns the forest unchanged; same-position append is the identity",
        "not_proved": "that no error can arise after the checks (late NodeError unreachable under the invariant) and absence of panics under the invariant",
        "modelled": EXTERNAL,
        "assumptions": ["arguments are live handles"],
    },
    "C11": {
        "suites": [("forest", 300, 6000)],
        "proved_scope": "updating an existing key keeps every node and handle in place; removing an absent key is the identity; element-only accessors panic without change on non-elements. Agreement of the read-only and the mutable view is checked on the implementation after every step (both Rust copies against the model's single definition)",
        "not_proved": "refinement of insert/remove/clear/insert_node to an insertion-ordered association list (C11_refine) and C11_order",
        "modelled": EXTERNAL,
        "assumptions": ["arguments are live handles"],
    },
    "C05": {
        "suites": [("fspec", 400, 8000)],
        "proved_scope": "IN PROGRESS",
        "not_proved": "IN PROGRESS",
        "modelled": EXTERNAL,
        "assumptions": ["arguments are live handles", "when consolidation is on the forest holds no adjacent text nodes before the call (always true while consolidation was never switched off)"],
    },
}
PROPS = {}
for _path in sorted(glob.glob(os.path.join(os.path.dirname(os.path.abspath(__file__)), "props", "C*.json"))):
    with open(_path, encoding="utf-8") as _f:
        _cfg = json.load(_f)
    _cfg["suites"] = [tuple(s) for s in _cfg["suites"]]
    PROPS[os.path.basename(_path)[:-5]] = _cfg
