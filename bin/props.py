"""Per-property configuration of check.py: suites (name, quick count, thorough count),
what is proved, what is modelled rather than verified."""

EXTERNAL = [
    "modelled, not verified: xmlparser 0.13.6 tokenizer, indextree 4.7.2 arena, encoding_rs/xhtmlchardet decoders, genawaiter, ahash (DESIGN.md section 6)",
]

PROPS = {
    "C01": {
        "suites": [("entity", 3000, 60000)],
        "show_constants": True,
        "proved_scope": "character level: parse_content(serialize_text s)=s and parse_content(serialize_attribute s)=s for every string; escaped output free of raw '<' / '\"' / TAB / LF / CR",
        "not_proved": "tree level (C01_main): serializer + tokenizer contract + builder",
        "modelled": EXTERNAL,
        "assumptions": ["NoopNormalizer (identity) is the normalizer"],
    },
    "C14": {
        "suites": [("entity", 3000, 60000), ("ser", 1200, 6000)],
        "show_constants": True,
        "proved_scope": "character level: CDATA sections of serialize_cdata concatenate to the input and contain no ]]>; unescaped_gt text decodes to the input and contains no ]]>. Pretty (all trees, all start nodes, all parameter sets, arbitrary escaping functions): erasing the indentation / newline fields of the pretty token stream gives the plain token stream; the pretty string is the plain tokens plus per token 2*indentation spaces in front and at most one LF behind (C14_pretty_content, _conv, C14_pretty_string). Placement, stack level (all stacks): newline only outside mixed / suppressed content and outside xml:space=preserve scope, no whitespace inside mixed / suppressed content at any depth, what StartTagClose pushes (C14_pretty_where_newline, _mixed, _entry); inside a preserve scope the indentation is frozen at the depth of the preserve element (C14_pretty_where_frozen), zero only when that element is outermost (C14_pretty_where_partial); the full-strength rule is refuted by a closed witness (C14_pretty_where_false). Placement, tree level (all trees): the Pretty stack before every event is exactly the entries of the open elements between start node and the event's node, so every token's indentation / newline is prettify on that explicit function of the tree (C14_pretty_where_tree); a token receives indentation or a newline only if no open element strictly above it has a text child or is in the suppress list (C14_pretty_where_tree_mixed, full strength). Doctype: the rule 'doctype name = name in the root start tag' is refuted by a closed witness (C14_doctype_false)",
        "not_proved": "C14_options (reparse of the output under every parameter set = C01_main, needs the tokenizer contract and the builder) and C14_decl (prolog well-formedness): by the harness oracles only (prolog grammar check, reparse + whitespace diff); a tree-level reading of the preserve rule beyond C14_pretty_where_tree + the stack-level theorems is not stated separately",
        "modelled": EXTERNAL,
        "assumptions": ["NoopNormalizer (identity) is the normalizer"],
    },
    "C16": {
        "suites": [("ser", 1200, 6000)],
        "proved_scope": "for every tree, start node and parameter set, for arbitrary escaping functions: concatenated tokens (space-prefixed when flagged) = string serialisation, both directions, and tokens panics exactly when the string entry point returns an error (C16_tokens, _conv, _fail); pretty tokens with indentation/newline applied = pretty string (C16_pretty, _conv); serialize_xml_write writes exactly what serialize_xml_string returns and they fail together, Xot::write / to_string are the default-parameter instances (C16_write, _write_default, _to_string); event stream: per element exactly start-tag-open, inherited declarations (top element only, = in-scope bindings it does not declare), own declarations and attributes in view order, start-tag-close, children in order, end-tag (C16_events_element, _inherited, _children), one event per text/comment/PI and none for document/attribute/namespace nodes (C16_events_leaf), every event tagged with a normal node of the subtree and one of that node's own events (C16_events_tagged), opening events = normal non-document nodes in pre-order (C16_events_order)",
        "not_proved": "nothing of the property statement inside the model; the Write entry point is modelled as a byte accumulator (io::Error of the writer is outside the model: Vec<u8> never fails)",
        "modelled": EXTERNAL,
        "assumptions": ["NoopNormalizer (identity) is the normalizer", "the std::io::Write target does not fail"],
    },
    "C10": {
        "suites": [("ser", 1200, 6000)],
        "proved_scope": "first sentence of the property, for every tree whose elements declare no prefix twice, every start node, every parameter set, arbitrary escaping functions: (1) FullnameSerializer level: the top frame of the stack is the nearest-declaration-wins scope of the declaration frames pushed (C10_stack_invariant; kept by push, undone by pop: C10_stack_push, _pop; base case because namespaces_in_scope yields each prefix once: C10_stack_base, _base_inScope); the prefix element_prefix / attribute_prefix choose, looked up by XML-Namespaces rules in the scope of the same declarations, gives back the name's namespace (C10_sound_attribute full strength; C10_sound_partial for elements under the guard 'not (no-namespace name while a default namespace is in scope)'; the unguarded statement is refuted by a closed witness: C10_sound_false); an error is returned exactly when no usable prefix is in scope (C10_error_element, _attribute). (2) the serialisation run: before every event of gen_outputs the stack stands for the declaration lists of the open elements between the start node and the event's node on top of namespaces_in_scope(start) (C10_stack_traversal: push at StartTagOpen, pop at EndTag, balanced over every subtree), hence every start-tag, end-tag and attribute name the run renders resolves in those declarations to the node's expanded name (C10_sound_tree_partial, _endtag_partial with the same guard; C10_sound_tree_attribute full strength)",
        "not_proved": "the theorems resolve names in the declarations of the tree (the Prefix events, C16_events_element), not in the bytes: that a declaration of the XML namespace under another prefix is not written (render_output suppresses it: defect C10:prefix-bound-to-xml-namespace-written-without-declaration) and that URIs are written unescaped (defect C10:namespace-uri-written-unescaped) are outside the theorems and are found by the suite's independent resolver / reparse oracle; a string-level resolver (parsing qnames back out of the token text) is not modelled; C10_repair / C10_iter (create_missing_prefixes) belong to the scope / edit suites",
        "modelled": EXTERNAL,
        "assumptions": ["no prefix is declared twice on one element (NodeMap keys are unique: C11)"],
    },
}
