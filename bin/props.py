"""Per-property configuration of check.py: suites (name, quick count, thorough count),
what is proved, what is modelled rather than verified."""

EXTERNAL = [
    "modelled, not verified: xmlparser 0.13.6 tokenizer, indextree 4.7.2 arena, encoding_rs/xhtmlchardet decoders, genawaiter, ahash (DESIGN.md section 6)",
]

PROPS = {
    "C01": {
        "suites": [("entity", 3000, 60000)],
        "show_constants": True,
        "proved_scope": "character level: parse_content(serialize_text s)=s and parse_content(serialize_attribute s)=s for every string; escaped output free of raw '<' / '\"' / TAB / LF / CR",
        "not_proved": "tree level (C01_main): serializer + tokenizer contract + builder",
        "modelled": EXTERNAL,
        "assumptions": ["NoopNormalizer (identity) is the normalizer"],
    },
    "C14": {
        "suites": [("entity", 3000, 60000)],
        "show_constants": True,
        "proved_scope": "character level: CDATA sections of serialize_cdata concatenate to the input and contain no ]]>; unescaped_gt text decodes to the input and contains no ]]>",
        "not_proved": "tree level option independence; Pretty placement rules",
        "modelled": EXTERNAL,
        "assumptions": ["NoopNormalizer (identity) is the normalizer"],
    },
    "C07": {
        "suites": [("axes", 150, 400)],
        "proved_scope": "(in progress)",
        "not_proved": "(in progress)",
        "modelled": EXTERNAL,
        "assumptions": [],
    },
}
