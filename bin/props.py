"""Per-property configuration of check.py: suites (name, quick count, thorough count),
what is proved, what is modelled rather than verified."""

EXTERNAL = [
    "modelled, not verified: xmlparser 0.13.6 tokenizer, indextree 4.7.2 arena, encoding_rs/xhtmlchardet decoders, genawaiter, ahash (DESIGN.md section 6)",
]

PROPS = {
    "C01": {
        "suites": [("entity", 3000, 60000)],
        "show_constants": True,
        "proved_scope": "character level: parse_content(serialize_text s)=s and parse_content(serialize_attribute s)=s for every string; escaped output free of raw '<' / '\"' / TAB / LF / CR",
        "not_proved": "tree level (C01_main): serializer + tokenizer contract + builder",
        "modelled": EXTERNAL,
        "assumptions": ["NoopNormalizer (identity) is the normalizer"],
    },
    "C02": {
        "suites": [("build", 1500, 12000)],
        "proved_scope": "character level, every input: parse_content decodes every well-spelled piece list (literal chars, the five predefined entities, decimal/hex references with case and leading zeros, CR/CRLF, attribute-value normalisation) to the value it denotes (C02_content); normalize_xml_id = strip+collapse when at most one space stands at either end (C02_xmlid_partial). Proved negations with closed witnesses: C02_xmlid_false, C02_cdata_line_ends_false, C02_namespace_uri_false, C02_local_xmlns_false, C02_empty_cdata_false",
        "not_proved": "C02_merge / C02_scope / C02_spelled / C02_fragment (builder level: name resolution = XML-Namespaces scoping, text+CDATA merging, fragment = content of wrapped parse) are not proved; they are covered by the build suite's renderer oracle and by the model/implementation correspondence. Lexical layer (quotes, in-tag white space, XML declaration, BOM, byte encodings) is external (xmlparser, xhtmlchardet, encoding_rs): renderer oracle only",
        "modelled": EXTERNAL,
        "assumptions": ["the token list is what xmlparser 0.13.6 returns (the build suite feeds the model the real tokenizer's tokens)"],
    },
    "C03": {
        "suites": [("build", 1500, 12000)],
        "proved_scope": "every token list: accepted => document node at the root only, children ordered namespaces/attributes/normal, attribute and namespace nodes only under elements, leaves are leaves, no adjacent text nodes (C03_sound), and for parse exactly one element and no text at top level (C03_sound_document); no panic under the token-shape contract when no end tag occurs at depth 0 (C03_nopanic_partial, C03_bytes_nopanic_partial); rejections the code enforces (C03_reject_*: sticky first error, tokenizer error, DTD tokens, version, mismatched end tag, unknown prefix, attribute repeated as written, references that do not decode / are not terminated anywhere after well-spelled content, duplicate xml:id, unclosed element). Proved negations with closed witnesses: C03_nopanic_false, C03_bytes_nopanic_false, C03_sound_unique_false, C03_reject_duplicate_expanded_false, C03_reject_prefix_twice_false, C03_reject_nonchar_false, C03_reject_signed_false, C03_reject_truncated_false",
        "not_proved": "Representable (accepted tree re-serialises and reparses deep-equal) is not proved: oracle only. Uniqueness of attribute names / prefixes per element is FALSE for the code (negation proved). Tokenizer-level rejections (raw '<' / '&', malformed comments / PIs / CDATA) belong to xmlparser: fault catalogue in the build suite only. Termination/totality of the real code: by the model being total plus correspondence",
        "modelled": EXTERNAL,
        "assumptions": ["TokenShape (DESIGN.md section 6): spans inside the input, prefix/local abut the colon, attributes and '>' '/>' only inside a start tag", "NoStrayClose: the tokenizer emits no end tag at depth 0 (true in document mode, false in fragment mode)"],
    },
    "C17": {
        "suites": [("build", 1500, 12000)],
        "proved_scope": "every token list under the token-shape contract: every ParseError span and every recorded span has both end points in [0, len] (C17_errors, C17_inside); parse_content error positions lie in [base, base + len(content)] (C17_errors_content); which token span is stored under each SpanInfoKey (C17_span_element_start/_element_end/_attribute/_text_first/_text_next/_comment/_pi); element and text children of the document node have their spans (C17_total_top)",
        "not_proved": "start <= end and char-boundary alignment of spans (needs the tokens to be in source order: tokenizer contract, checked by the suite oracle); spans present for nodes below the top level (C17_total); decoding the slice gives the node value at tree level (character level is C02_content); that token spans slice to the spelling (tokenizer): renderer oracle with tracked offsets",
        "modelled": EXTERNAL,
        "assumptions": ["TokenShape (DESIGN.md section 6)"],
    },
    "C14": {
        "suites": [("entity", 3000, 60000)],
        "show_constants": True,
        "proved_scope": "character level: CDATA sections of serialize_cdata concatenate to the input and contain no ]]>; unescaped_gt text decodes to the input and contains no ]]>",
        "not_proved": "tree level option independence; Pretty placement rules",
        "modelled": EXTERNAL,
        "assumptions": ["NoopNormalizer (identity) is the normalizer"],
    },
}
