"""Per-property configuration of check.py: suites (name, quick count, thorough count),
what is proved, what is modelled rather than verified."""

EXTERNAL = [
    "modelled, not verified: xmlparser 0.13.6 tokenizer, indextree 4.7.2 arena, encoding_rs/xhtmlchardet decoders, genawaiter, ahash (DESIGN.md section 6)",
]

PROPS = {
    "C01": {
        "suites": [("entity", 3000, 60000), ("rt", 2500, 60000)],
        "show_constants": True,
        "proved_scope": "character level: parse_content(serialize_text s)=s and parse_content(serialize_attribute s)=s for every string; escaped output free of raw '<' / '\"' / TAB / LF / CR",
        "not_proved": "tree level (C01_main): serializer + tokenizer contract + builder",
        "modelled": EXTERNAL,
        "assumptions": ["NoopNormalizer (identity) is the normalizer"],
    },
    "C08": {
        "suites": [("idmap", 200, 3000)],
        "show_constants": True,
        "proved_scope": "generic in the id width: table invariant (by_value = graph of v -> to_id(index in by_id), by_id duplicate-free) holds of Xot::new() and is preserved by every registration; with at most 2^bits distinct values: equal ids <=> equal values (names: (local, namespace id)), get_value/get_id inverse, read-only lookups find exactly the registered values; id/value pairs persist under any further history (no bound); built-ins distinct and resolving to the standard strings (decide over builtinRegistrations); clone answers alike; the unbounded claim is refuted at every width (C08_wraps, C08_full_false) and at the extracted widths from Xot::new() (n65534 -> xml:space / empty prefix / no namespace)",
        "not_proved": "that parse()/html5() perform exactly the get_id_mut calls the harness observes (covered by the `implicit` correspondence requests, not by a parser model); consequences for trees (names compare equal across trees iff expanded names equal) are the table statement plus the tree layers of C01/C09",
        "modelled": EXTERNAL + ["ahash HashMap as a finite map (get = first match of an association list, insert = cons)"],
        "assumptions": ["derived Clone of Vec/HashMap/String yields equal values (extractor checks the derives)",
                        "release profile: `index as u16` truncates silently (it does in every profile)"],
    },
    "C14": {
        "suites": [("entity", 3000, 60000)],
        "show_constants": True,
        "proved_scope": "character level: CDATA sections of serialize_cdata concatenate to the input and contain no ]]>; unescaped_gt text decodes to the input and contains no ]]>",
        "not_proved": "tree level option independence; Pretty placement rules",
        "modelled": EXTERNAL,
        "assumptions": ["NoopNormalizer (identity) is the normalizer"],
    },
    "C04": {
        "suites": [("forest", 300, 6000)],
        "proved_scope": "invariant Forest.inv defined (decidable); proved: holds initially, preserved by set_text_consolidation; value updates never create, lose or reorder a handle. The invariant is additionally evaluated on the model state after every step of every correspondence history and compared with an independent validator on the real forest",
        "not_proved": "preservation of Forest.inv by each moving / creating / removing operation (C04_step), hence C04_reach by induction; monotonicity of is_removed (holds in the model by construction of fresh handles, not yet stated as a theorem)",
        "modelled": EXTERNAL + ["handles are creation-order numbers; indextree slot reuse and the 15-bit stamp are below the model"],
        "assumptions": ["arguments are live handles"],
    },
    "C06": {
        "suites": [("forest", 300, 6000)],
        "proved_scope": "every refusal produced by the argument checks (structure check, sibling reference check, replace / element_wrap / element_unwrap pre-checks) returns the forest unchanged; same-position append is the identity",
        "not_proved": "that no error can arise after the checks (late NodeError unreachable under the invariant) and absence of panics under the invariant",
        "modelled": EXTERNAL,
        "assumptions": ["arguments are live handles"],
    },
    "C11": {
        "suites": [("forest", 300, 6000)],
        "proved_scope": "updating an existing key keeps every node and handle in place; removing an absent key is the identity; element-only accessors panic without change on non-elements. Agreement of the read-only and the mutable view is checked on the implementation after every step (both Rust copies against the model's single definition)",
        "not_proved": "refinement of insert/remove/clear/insert_node to an insertion-ordered association list (C11_refine) and C11_order",
        "modelled": EXTERNAL,
        "assumptions": ["arguments are live handles"],
    },
    "C05": {
        "suites": [("fspec", 400, 8000)],
        "proved_scope": "IN PROGRESS",
        "not_proved": "IN PROGRESS",
        "modelled": EXTERNAL,
        "assumptions": ["arguments are live handles", "when consolidation is on the forest holds no adjacent text nodes before the call (always true while consolidation was never switched off)"],
    },
}
