"""Per-property configuration of check.py: suites (name, quick count, thorough count),
what is proved, what is modelled rather than verified."""

EXTERNAL = [
    "modelled, not verified: xmlparser 0.13.6 tokenizer, indextree 4.7.2 arena, encoding_rs/xhtmlchardet decoders, genawaiter, ahash (DESIGN.md section 6)",
]

PROPS = {
    "C01": {
        "suites": [("entity", 3000, 60000)],
        "show_constants": True,
        "proved_scope": "character level: parse_content(serialize_text s)=s and parse_content(serialize_attribute s)=s for every string; escaped output free of raw '<' / '\"' / TAB / LF / CR",
        "not_proved": "tree level (C01_main): serializer + tokenizer contract + builder",
        "modelled": EXTERNAL,
        "assumptions": ["NoopNormalizer (identity) is the normalizer"],
    },
    "C14": {
        "suites": [("entity", 3000, 60000)],
        "show_constants": True,
        "proved_scope": "character level: CDATA sections of serialize_cdata concatenate to the input and contain no ]]>; unescaped_gt text decodes to the input and contains no ]]>",
        "not_proved": "tree level option independence; Pretty placement rules",
        "modelled": EXTERNAL,
        "assumptions": ["NoopNormalizer (identity) is the normalizer"],
    },
    "C04": {
        "suites": [("forest", 300, 6000)],
        "proved_scope": "invariant Forest.inv defined (decidable); proved: holds initially, preserved by set_text_consolidation; value updates never create, lose or reorder a handle. The invariant is additionally evaluated on the model state after every step of every correspondence history and compared with an independent validator on the real forest",
        "not_proved": "preservation of Forest.inv by each moving / creating / removing operation (C04_step), hence C04_reach by induction; monotonicity of is_removed (holds in the model by construction of fresh handles, not yet stated as a theorem)",
        "modelled": EXTERNAL + ["handles are creation-order numbers; indextree slot reuse and the 15-bit stamp are below the model"],
        "assumptions": ["arguments are live handles"],
    },
    "C06": {
        "suites": [("forest", 300, 6000)],
        "proved_scope": "every refusal produced by the argument checks (structure check, sibling reference check, replace / element_wrap / element_unwrap pre-checks) returns the forest unchanged; same-position append is the identity",
        "not_proved": "that no error can arise after the checks (late NodeError unreachable under the invariant) and absence of panics under the invariant",
        "modelled": EXTERNAL,
        "assumptions": ["arguments are live handles"],
    },
    "C11": {
        "suites": [("fmap", 150, 1000), ("forest", 300, 6000)],
        "proved_scope": "for every forest satisfying Forest.Inv and every live element e, with abs k f e = the (key, payload) list of the attribute / namespace children the adapters select and omInsert / omRemove / omClear / omModify the insertion-ordered reference map (Model/FmapSpec.lean): C11_refine_insert (insert = set_attribute / set_namespace: abs becomes omInsert, outcome ok) + C11_insert_nodes (existing key keeps every entry node, position and handle; new key = fresh node last); C11_refine_remove; C11_refine_clear; C11_refine_insert_node (append_attribute_node / append_namespace_node / any_append of a detached entry node: omInsert; key present: the existing node keeps place and handle, takes the value and is returned, the passed node stays parentless with its value; key absent: the node becomes the last entry) + C11_any_append_entry + C11_append_own_node (appending a node that already is an entry of this view is the identity); C11_insert_node_existing_key (any live entry node, detached or attached anywhere, whose key the view has: only the existing node's value changes); C11_move_node (append of an entry node still attached to another element e2, key absent in e: e gains the entry last carried by the same node, e2's view becomes omRemove, other views untouched, Forest.Inv kept); C11_refine_remove_node (remove(node) of an entry node is remove(key); detach(node) is omRemove and leaves the node parentless); C11_other_view_untouched (content and nodes of the other view); C11_children_untouched / _node (frame: the new forest is the old one with only e's child list replaced, and in it every non-entry of view k, i.e. normal children and the other view's nodes, is the same in the same order); C11_unique_keys (both views of every node); C11_reference_is_a_map (reference map sanity: keys stay distinct, lookups after updates, omRemove = filter); C11_reads (get_node / get / contains_key / len / is_empty / keys / values / nodes = the reference reads, no hypothesis); C11_histories (induction over lists of MapOp = insert / remove / clear / fresh-node append on both views of one element: no step fails or panics, each view = specOps of its own steps, keys stay distinct, Forest.Inv holds again) + C11_step; C11_preserves_inv (insert, remove, clear, append of a detached entry node, detach of an entry node preserve the whole Forest.Inv); entry API modelled in Model/FmapEntry.lean as the Rust compositions of get / get_mut / insert / remove with their unwraps: C11_entry_or_insert, C11_entry_or_default, C11_entry_and_modify, C11_entry_and_modify_or_insert, C11_entry_insert_remove (occupied insert / remove, vacant insert), C11_get_mut: reference-map meaning, never panic, other view untouched; C11_order ((HTree.erase t).nsDecls / .attrs, the lists gen_outputs iterates, are exactly abs in order, no hypothesis). Agreement of the read-only and the mutable Rust view with the model's single definition, and with an independent Vec-of-pairs reference map fed the same updates (every accessor of both views, node identity included; to_string order), is checked on the implementation after every step of every fmap history, exhaustively for all histories of 5 steps over 3 keys",
        "not_proved": "C11_histories quantifies over MapOp histories (insert / remove / clear / fresh-node append on one element); the other updates (entry API, get_mut, detach / remove / move of entry nodes) are proved as single steps that preserve Forest.Inv and so chain, but are not constructors of MapOp; C11_views_agree as a theorem is vacuous in the model (one definition of the view content; the two Rust copies are compared by the harness); the serialisation clause beyond C11_order (that the serializers emit the Output stream of gen_outputs in that order) belongs to the output layer; to_vec / to_hashmap / iter are the same list as keys zipped with values in the model and are compared on the implementation only",
        "modelled": EXTERNAL,
        "assumptions": ["arguments are live handles", "the value given to a view has that view's kind (k.matches): the Rust API enforces it by types"],
    },
}
