"""Per-property configuration of check.py: suites (name, quick count, thorough count),
what is proved, what is modelled rather than verified."""

EXTERNAL = [
    "modelled, not verified: xmlparser 0.13.6 tokenizer, indextree 4.7.2 arena, encoding_rs/xhtmlchardet decoders, genawaiter, ahash (DESIGN.md section 6)",
]

PROPS = {
    "C01": {
        "suites": [("entity", 3000, 60000), ("rt", 2500, 60000)],
        "show_constants": True,
        "proved_scope": "character level: parse_content(serialize_text s)=s and parse_content(serialize_attribute s)=s for every string; escaped output free of raw '<' / '\"' / TAB / LF / CR",
        "not_proved": "tree level (C01_main): serializer + tokenizer contract + builder",
        "modelled": EXTERNAL,
        "assumptions": ["NoopNormalizer (identity) is the normalizer"],
    },
    "C08": {
        "suites": [("idmap", 200, 3000)],
        "show_constants": True,
        "proved_scope": "generic in the id width: table invariant (by_value = graph of v -> to_id(index in by_id), by_id duplicate-free) holds of Xot::new() and is preserved by every registration; with at most 2^bits distinct values: equal ids <=> equal values (names: (local, namespace id)), get_value/get_id inverse, read-only lookups find exactly the registered values; id/value pairs persist under any further history (no bound); built-ins distinct and resolving to the standard strings (decide over builtinRegistrations); clone answers alike; the unbounded claim is refuted at every width (C08_wraps, C08_full_false) and at the extracted widths from Xot::new() (n65534 -> xml:space / empty prefix / no namespace)",
        "not_proved": "that parse()/html5() perform exactly the get_id_mut calls the harness observes (covered by the `implicit` correspondence requests, not by a parser model); consequences for trees (names compare equal across trees iff expanded names equal) are the table statement plus the tree layers of C01/C09",
        "modelled": EXTERNAL + ["ahash HashMap as a finite map (get = first match of an association list, insert = cons)"],
        "assumptions": ["derived Clone of Vec/HashMap/String yields equal values (extractor checks the derives)",
                        "release profile: `index as u16` truncates silently (it does in every profile)"],
    },
    "C14": {
        "suites": [("entity", 3000, 60000), ("ser", 1200, 6000)],
        "show_constants": True,
        "proved_scope": "character level: CDATA sections of serialize_cdata concatenate to the input and contain no ]]>; unescaped_gt text decodes to the input and contains no ]]>. Pretty (all trees, all start nodes, all parameter sets, arbitrary escaping functions): erasing the indentation / newline fields of the pretty token stream gives the plain token stream; the pretty string is the plain tokens plus per token 2*indentation spaces in front and at most one LF behind (C14_pretty_content, _conv, C14_pretty_string). Placement, stack level (all stacks): newline only outside mixed / suppressed content and outside xml:space=preserve scope, no whitespace inside mixed / suppressed content at any depth, what StartTagClose pushes (C14_pretty_where_newline, _mixed, _entry); inside a preserve scope the indentation is frozen at the depth of the preserve element (C14_pretty_where_frozen), zero only when that element is outermost (C14_pretty_where_partial); the full-strength rule is refuted by a closed witness (C14_pretty_where_false). Placement, tree level (all trees): the Pretty stack before every event is exactly the entries of the open elements between start node and the event's node, so every token's indentation / newline is prettify on that explicit function of the tree (C14_pretty_where_tree); a token receives indentation or a newline only if no open element strictly above it has a text child or is in the suppress list (C14_pretty_where_tree_mixed, full strength). Doctype: the rule 'doctype name = name in the root start tag' is refuted by a closed witness (C14_doctype_false)",
        "not_proved": "C14_options (reparse of the output under every parameter set = C01_main, needs the tokenizer contract and the builder) and C14_decl (prolog well-formedness): by the harness oracles only (prolog grammar check, reparse + whitespace diff); a tree-level reading of the preserve rule beyond C14_pretty_where_tree + the stack-level theorems is not stated separately",
        "modelled": EXTERNAL,
        "assumptions": ["NoopNormalizer (identity) is the normalizer"],
    },
    "C13": {
        "suites": [("cmp", 900, 12000)],
        "proved_scope": (
            "for ALL trees, filters and text comparisons: advanced_deep_equal on two normal nodes = structural equality of the "
            "filtered forests (C13_advanced; Rust zip semantics included), and = the direct value comparison as soon as one node is "
            "an attribute / namespace node (C13_advanced_abnormal). For structurally valid trees (children ordered "
            "namespace/attribute/normal, unique attribute names per node, attribute/namespace nodes are leaves) and EVERY node "
            "kind, attribute and namespace nodes included: deep_equal a b <-> canon a = canon b (C13_iff; C13_attribute_nodes, "
            "C13_namespace_nodes), hence reflexive / symmetric / transitive for every node kind; insensitive to namespace nodes "
            "anywhere (declarations, prefixes: C13_ignores_declarations, C13_ignores_prefix) and to the attribute order of the "
            "compared node (C13_ignores_attribute_order; deeper levels via canon, which sorts attributes); with any text comparison "
            "the canonical forms are related up to cmp (C13_advanced_all, every node kind); deep_equal_xpath on element/element and "
            "document/document = Canon.rel cmp of the canonical forms with everything but elements and text discarded, otherwise "
            "CValue.rel cmp of the two nodes (C13_xpath, C13_xpath_other); deep_equal_children <-> equal canonical child sequences "
            "(C13_children); shallow_equal <-> equal canonical values, for every node kind (C13_shallow); "
            "shallow_equal_ignore_attributes <-> equal canonical values with the listed names removed, for EVERY ignore list, "
            "repeated and absent names included (C13_shallow_ignore); string_value of document/element = concatenated text of the "
            "canonical form, other nodes their own content (C13_string_value, C13_string_value_other)."
        ),
        "not_proved": (
            "no statement about structurally invalid trees beyond C13_advanced / C13_advanced_abnormal (ill-ordered children, "
            "duplicate attribute names, children under attribute/namespace nodes); attribute-order insensitivity below the compared "
            "node is only available through C13_iff + the definition of canon, not as a separate theorem; deep_equal_xpath(==) a b = "
            "deep_equal of the trees with comments/PIs removed is not derived (needs validity of the stripped tree), C13_xpath states "
            "the relation on canonical forms instead; Canon.rel compares attribute maps by size + lookup (finite-map relation), its "
            "equivalence with a position-wise comparison of the sorted lists is not proved; equivalence-relation laws for custom text "
            "comparisons are not claimed (they depend on cmp); text_content / text_content_str are modelled and in the "
            "correspondence suite but have no theorem; name id <-> expanded name is C08"
        ),
        "modelled": EXTERNAL,
        "assumptions": [
            "a name id stands for its expanded name (local name, namespace URI): interning is one-to-one (C08)",
            "harness built with overflow-checks = false: the usize counter of shallow_equal_ignore_attributes wraps modulo 2^64",
            "text comparisons and filters are pure total functions of their arguments (filter of the node's own subtree)",
            "the first node's attribute list has fewer than 2^64 entries (hypothesis of C13_shallow, C13_shallow_ignore)",
        ],
    },
    "C04": {
        "suites": [("forest", 300, 6000)],
        "proved_scope": "invariant Forest.inv defined (decidable); proved: holds initially, preserved by set_text_consolidation; value updates never create, lose or reorder a handle. The invariant is additionally evaluated on the model state after every step of every correspondence history and compared with an independent validator on the real forest",
        "not_proved": "preservation of Forest.inv by each moving / creating / removing operation (C04_step), hence C04_reach by induction; monotonicity of is_removed (holds in the model by construction of fresh handles, not yet stated as a theorem)",
        "modelled": EXTERNAL + ["handles are creation-order numbers; indextree slot reuse and the 15-bit stamp are below the model"],
        "assumptions": ["arguments are live handles"],
    },
    "C06": {
        "suites": [("forest", 300, 6000)],
        "proved_scope": "every refusal produced by the argument checks (structure check, sibling reference check, replace / element_wrap / element_unwrap pre-checks) returns the forest unchanged; same-position append is the identity",
        "not_proved": "that no error can arise after the checks (late NodeError unreachable under the invariant) and absence of panics under the invariant",
        "modelled": EXTERNAL,
        "assumptions": ["arguments are live handles"],
    },
    "C11": {
        "suites": [("forest", 300, 6000)],
        "proved_scope": "updating an existing key keeps every node and handle in place; removing an absent key is the identity; element-only accessors panic without change on non-elements. Agreement of the read-only and the mutable view is checked on the implementation after every step (both Rust copies against the model's single definition)",
        "not_proved": "refinement of insert/remove/clear/insert_node to an insertion-ordered association list (C11_refine) and C11_order",
        "modelled": EXTERNAL,
        "assumptions": ["arguments are live handles"],
    },
    "C07": {
        "suites": [("axes", 150, 400)],
        "proved_scope": (
            "all trees, all nodes, unbounded (Tree x Path): document order = lexicographic order on index paths; "
            "partition law (ancestors, self, descendants, preceding, following = the normal nodes, each once; also for attribute/namespace start nodes) with "
            "descendants/following in document order and ancestors/preceding in reverse; every machine equals its document-order specification: "
            "Following (following, all_following; fuel = node count adequate), ReversePreorder (both variants), preceding, descendants, "
            "NodeEdge::next/previous walks = traverse/reverse_traverse with continuation, level_order = levels with End markers (fuel adequate), "
            "children/first_child/last_child, following_/preceding_siblings and sibling axes for every category, next_/previous_sibling, child_index, "
            "reverse_children (= children reversed, fuel adequate), axis() for all 12 values, root, document_element, top_element (total: never panics; value in each case), attribute_nodes; "
            "plain variants yield normal nodes only; all_* variants = node, namespaces, attributes, children"
        ),
        "not_proved": (
            "indextree's iterators (children, ancestors, descendants, traverse, reverse_traverse, following_/preceding_siblings) are modelled by contract, "
            "not verified (reverse_children no longer relies on Children::next_back, whose indextree 4.7.2 code is defective: fixed in 7fee193); traverse/all_traverse are therefore specifications "
            "(tied to the machines by C07_edges_* and C07_traverse_starts), not verified code; theorems needing the structural hypotheses `wf` "
            "(non-normal nodes are leaves, no normal child before a non-normal one) / `kidsSorted` (ns, attr, normal) say nothing about ill-ordered trees "
            "(C04 is to show the API cannot build them); behaviour at invalid paths (stale handles) is not covered"
        ),
        "modelled": EXTERNAL,
        "assumptions": [
            "tree hypotheses of the theorems: wf (every tree the public API builds; property C04), Valid path",
            "genawaiter generator in level_order = the plain loop it wraps",
        ],
    "C16": {
        "suites": [("ser", 1200, 6000)],
        "proved_scope": "for every tree, start node and parameter set, for arbitrary escaping functions: concatenated tokens (space-prefixed when flagged) = string serialisation, both directions, and tokens panics exactly when the string entry point returns an error (C16_tokens, _conv, _fail); pretty tokens with indentation/newline applied = pretty string (C16_pretty, _conv); serialize_xml_write writes exactly what serialize_xml_string returns and they fail together, Xot::write / to_string are the default-parameter instances (C16_write, _write_default, _to_string); event stream: per element exactly start-tag-open, inherited declarations (top element only, = in-scope bindings it does not declare), own declarations and attributes in view order, start-tag-close, children in order, end-tag (C16_events_element, _inherited, _children), one event per text/comment/PI and none for document/attribute/namespace nodes (C16_events_leaf), every event tagged with a normal node of the subtree and one of that node's own events (C16_events_tagged), opening events = normal non-document nodes in pre-order (C16_events_order)",
        "not_proved": "nothing of the property statement inside the model; the Write entry point is modelled as a byte accumulator (io::Error of the writer is outside the model: Vec<u8> never fails)",
        "modelled": EXTERNAL,
        "assumptions": ["NoopNormalizer (identity) is the normalizer", "the std::io::Write target does not fail"],
    },
    "C10": {
        "suites": [("ser", 1200, 6000)],
        "proved_scope": "first sentence of the property, for every tree whose elements declare no prefix twice, every start node, every parameter set, arbitrary escaping functions: (1) FullnameSerializer level: the top frame of the stack is the nearest-declaration-wins scope of the declaration frames pushed (C10_stack_invariant; kept by push, undone by pop: C10_stack_push, _pop; base case because namespaces_in_scope yields each prefix once: C10_stack_base, _base_inScope); the prefix element_prefix / attribute_prefix choose, looked up by XML-Namespaces rules in the scope of the same declarations, gives back the name's namespace (C10_sound_attribute full strength; C10_sound_partial for elements under the guard 'not (no-namespace name while a default namespace is in scope)'; the unguarded statement is refuted by a closed witness: C10_sound_false); an error is returned exactly when no usable prefix is in scope (C10_error_element, _attribute). (2) the serialisation run: before every event of gen_outputs the stack stands for the declaration lists of the open elements between the start node and the event's node on top of namespaces_in_scope(start) (C10_stack_traversal: push at StartTagOpen, pop at EndTag, balanced over every subtree), hence every start-tag, end-tag and attribute name the run renders resolves in those declarations to the node's expanded name (C10_sound_tree_partial, _endtag_partial with the same guard; C10_sound_tree_attribute full strength)",
        "not_proved": "the theorems resolve names in the declarations of the tree (the Prefix events, C16_events_element), not in the bytes: that a declaration of the XML namespace under another prefix is not written (render_output suppresses it: defect C10:prefix-bound-to-xml-namespace-written-without-declaration) and that URIs are written unescaped (defect C10:namespace-uri-written-unescaped) are outside the theorems and are found by the suite's independent resolver / reparse oracle; a string-level resolver (parsing qnames back out of the token text) is not modelled; C10_repair / C10_iter (create_missing_prefixes) belong to the scope / edit suites",
        "modelled": EXTERNAL,
        "assumptions": ["no prefix is declared twice on one element (NodeMap keys are unique: C11)"],
    },
}
