"""Per-property configuration of check.py: suites (name, quick count, thorough count),
what is proved, what is modelled rather than verified."""

EXTERNAL = [
    "modelled, not verified: xmlparser 0.13.6 tokenizer, indextree 4.7.2 arena, encoding_rs/xhtmlchardet decoders, genawaiter, ahash (DESIGN.md section 6)",
]

PROPS = {
    "C01": {
        "suites": [("entity", 3000, 60000)],
        "show_constants": True,
        "proved_scope": "character level: parse_content(serialize_text s)=s and parse_content(serialize_attribute s)=s for every string; escaped output free of raw '<' / '\"' / TAB / LF / CR",
        "not_proved": "tree level (C01_main): serializer + tokenizer contract + builder",
        "modelled": EXTERNAL,
        "assumptions": ["NoopNormalizer (identity) is the normalizer"],
    },
    "C14": {
        "suites": [("entity", 3000, 60000)],
        "show_constants": True,
        "proved_scope": "character level: CDATA sections of serialize_cdata concatenate to the input and contain no ]]>; unescaped_gt text decodes to the input and contains no ]]>",
        "not_proved": "tree level option independence; Pretty placement rules",
        "modelled": EXTERNAL,
        "assumptions": ["NoopNormalizer (identity) is the normalizer"],
    },
    "C07": {
        "suites": [("axes", 150, 400)],
        "proved_scope": (
            "all trees, all nodes, unbounded (Tree x Path): document order = lexicographic order on index paths; "
            "partition law (ancestors, self, descendants, preceding, following = the normal nodes, each once; also for attribute/namespace start nodes) with "
            "descendants/following in document order and ancestors/preceding in reverse; every machine equals its document-order specification: "
            "Following (following, all_following; fuel = node count adequate), ReversePreorder (both variants), preceding, descendants, "
            "NodeEdge::next/previous walks = traverse/reverse_traverse with continuation, level_order = levels with End markers (fuel adequate), "
            "children/first_child/last_child, following_/preceding_siblings and sibling axes for every category, next_/previous_sibling, child_index, "
            "axis() for all 12 values, root, document_element, top_element (panic boundary exact), attribute_nodes; plain variants yield normal nodes only; "
            "all_* variants = node, namespaces, attributes, children; reverse_children: partial (<= 1 raw child) + contract version + proved negation"
        ),
        "not_proved": (
            "indextree's iterators (children, ancestors, descendants, traverse, reverse_traverse, following_/preceding_siblings) are modelled by contract, "
            "not verified, except Children::next_back whose shipped (defective) code is modelled; traverse/all_traverse are therefore specifications "
            "(tied to the machines by C07_edges_* and C07_traverse_starts), not verified code; theorems needing the structural hypotheses `wf` "
            "(non-normal nodes are leaves, no normal child before a non-normal one) / `kidsSorted` (ns, attr, normal) say nothing about ill-ordered trees "
            "(C04 is to show the API cannot build them); behaviour at invalid paths (stale handles) is not covered"
        ),
        "modelled": EXTERNAL,
        "assumptions": [
            "tree hypotheses of the theorems: wf (every tree the public API builds; property C04), Valid path",
            "genawaiter generator in level_order = the plain loop it wraps",
        ],
    },
}
