"""Per-property configuration of check.py, one JSON file per property under bin/props/
(suites = [name, quick count, thorough count]; proved_scope / not_proved; modelled; assumptions)."""
import glob
import json
import os

EXTERNAL = [
    "modelled, not verified: xmlparser 0.13.6 tokenizer, indextree 4.7.2 arena, encoding_rs/xhtmlchardet decoders, genawaiter, ahash (DESIGN.md section 6)",
]

PROPS = {}
for _path in sorted(glob.glob(os.path.join(os.path.dirname(os.path.abspath(__file__)), "props", "C*.json"))):
    with open(_path, encoding="utf-8") as _f:
        _cfg = json.load(_f)
    _cfg["suites"] = [tuple(s) for s in _cfg["suites"]]
    PROPS[os.path.basename(_path)[:-5]] = _cfg
