"""Per-property configuration of check.py: suites (name, quick count, thorough count),
what is proved, what is modelled rather than verified."""

EXTERNAL = [
    "modelled, not verified: xmlparser 0.13.6 tokenizer, indextree 4.7.2 arena, encoding_rs/xhtmlchardet decoders, genawaiter, ahash (DESIGN.md section 6)",
]

PROPS = {
    "C01": {
        "suites": [("entity", 3000, 60000)],
        "show_constants": True,
        "proved_scope": "character level: parse_content(serialize_text s)=s and parse_content(serialize_attribute s)=s for every string; escaped output free of raw '<' / '\"' / TAB / LF / CR",
        "not_proved": "tree level (C01_main): serializer + tokenizer contract + builder",
        "modelled": EXTERNAL,
        "assumptions": ["NoopNormalizer (identity) is the normalizer"],
    },
    "C14": {
        "suites": [("entity", 3000, 60000)],
        "show_constants": True,
        "proved_scope": "character level: CDATA sections of serialize_cdata concatenate to the input and contain no ]]>; unescaped_gt text decodes to the input and contains no ]]>",
        "not_proved": "tree level option independence; Pretty placement rules",
        "modelled": EXTERNAL,
        "assumptions": ["NoopNormalizer (identity) is the normalizer"],
    },
    "C13": {
        "suites": [("cmp", 900, 12000)],
        "proved_scope": (
            "for ALL trees, filters and text comparisons: advanced_deep_equal = structural equality of the filtered forests "
            "(C13_advanced; Rust zip semantics included). For structurally valid trees (children ordered namespace/attribute/normal, "
            "unique attribute names per node, attribute/namespace nodes are leaves) and normal compared nodes: "
            "deep_equal a b <-> canon a = canon b (C13_iff), hence reflexive / symmetric / transitive; insensitive to namespace "
            "nodes anywhere (declarations, prefixes: C13_ignores_declarations, C13_ignores_prefix) and to the attribute order of the "
            "compared node (C13_ignores_attribute_order; deeper levels via canon, which sorts attributes); with any text comparison "
            "the canonical forms are related up to cmp (C13_advanced_all); deep_equal_xpath on element/element and document/document = "
            "Canon.rel cmp of the canonical forms with everything but elements and text discarded, otherwise CValue.rel cmp of the two "
            "nodes (C13_xpath, C13_xpath_other); deep_equal_children <-> equal canonical child sequences (C13_children); "
            "shallow_equal <-> equal canonical values, for every node kind (C13_shallow); shallow_equal_ignore_attributes <-> equal "
            "canonical values with the listed names removed, for ignore lists WITHOUT repeated names (C13_shallow_ignore_partial); "
            "string_value of document/element = concatenated text of the canonical form, other nodes their own content "
            "(C13_string_value, C13_string_value_other). Proved negations with closed witnesses: C13_iff_Statement_false "
            "(attribute / namespace nodes always deep_equal: C13_abnormal_always_equal, C13_abnormal_vs_normal), "
            "C13_shallow_ignore_Statement_false (repeated name in the ignore list, wrong false and wrong true)."
        ),
        "not_proved": (
            "no statement about structurally invalid trees beyond C13_advanced (ill-ordered children, duplicate attribute names, "
            "children under attribute/namespace nodes); attribute-order insensitivity below the compared node is only available "
            "through C13_iff + the definition of canon, not as a separate theorem; deep_equal_xpath(==) a b = deep_equal of the "
            "trees with comments/PIs removed is not derived (needs validity of the stripped tree), C13_xpath states the relation on "
            "canonical forms instead; Canon.rel compares attribute maps by size + lookup (finite-map relation), its equivalence with a "
            "position-wise comparison of the sorted lists is not proved; equivalence-relation laws for custom text comparisons are "
            "not claimed (they depend on cmp); text_content / text_content_str are modelled and in the correspondence suite but have "
            "no theorem; the dev-profile behaviour of the usize subtraction (panic on overflow) is not modelled (release: wrapping); "
            "name id <-> expanded name is C08"
        ),
        "modelled": EXTERNAL,
        "assumptions": [
            "a name id stands for its expanded name (local name, namespace URI): interning is one-to-one (C08)",
            "harness built with overflow-checks = false: usize arithmetic wraps modulo 2^64",
            "text comparisons and filters are pure total functions of their arguments (filter of the node's own subtree)",
            "attribute lists have fewer than 2^64 entries (hypothesis of C13_shallow*)",
        ],
    },
}
