#!/bin/bash
# mkwt.sh <name>: worktree /work/wt-<name> on branch wt-<name> from main, with warm build dirs
set -e
N="$1"
cd /verif
git worktree add -q -b "wt-$N" "/work/wt-$N" main
cp -r /verif/lean/.lake "/work/wt-$N/lean/.lake"
mkdir -p "/work/wt-$N/.build"
cp -r /verif/.build/cargo-target "/work/wt-$N/.build/cargo-target"
echo "/work/wt-$N ready"
