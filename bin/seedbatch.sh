#!/bin/bash
# seedbatch.sh <name> [<name>…]: for each /tmp/seed/<name> with a finished SEED/, run the property's quick check
for n in "$@"; do
  P=$(echo $n | grep -o '^C[0-9]*')
  if [ ! -f /tmp/seed/$n/SEED/patch.diff ]; then echo "$n: not ready"; continue; fi
  git -C /tmp/seed/$n checkout -q --detach main 2>/dev/null
  git -C /tmp/seed/$n apply --check /tmp/seed/$n/SEED/patch.diff 2>/dev/null || { echo "$n: patch does not apply"; continue; }
  echo "== $n: $(python3 -c "import json;print(json.load(open('/tmp/seed/$n/SEED/meta.json')).get('summary','')[:160])")"
  bin/seedrun.sh /tmp/seed/$n /tmp/seed/$n/SEED/patch.diff quick $P 2>&1 | grep -v KNOWN
done
