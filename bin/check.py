#!/usr/bin/env python3
"""
check.py — one entry point for every property check.

  python3 bin/check.py Cxx [--tier quick|thorough]      decide property Cxx on /repo's working tree
  python3 bin/check.py --replay evidence/replays/<f>    re-run one recorded case
  python3 bin/check.py --setup                          build everything once (MANIFEST.setup_cmd)

What a run does (DESIGN.md section 5):
  1. extract.py regenerates lean/XotModel/Generated.lean from /repo/src
  2. lake build of the property's theorem module, its axiom audit and the model driver
  3. forbidden-token scan, axiom audit
  4. cargo build of the harness against /repo's working tree (feature xot_verif)
  5. the suites the property depends on: transcript of the real xot vs the Lean model
  6. the property's oracle on the implementation (search for failing inputs)
  7. verdict, KNOWN-FINDING lines, evidence file
Exit 0 = property held on everything explored; exit 1 + `VIOLATION property=<id> replay=<path>`.
"""
import argparse
import fcntl
import hashlib
import json
import os
import re
import subprocess
import sys
import time

VERIF = os.path.dirname(os.path.dirname(os.path.abspath(__file__)))
LEAN = os.path.join(VERIF, "lean")
HARNESS = os.path.join(VERIF, "harness")
BUILD = os.path.join(VERIF, ".build")
EVID = os.path.join(VERIF, "evidence")
REPLAYS = os.path.join(EVID, "replays")
HBIN = os.path.join(BUILD, "cargo-target", "release", "xotharness")
MBIN = os.path.join(LEAN, ".lake", "build", "bin", "xotmodel")
ALLOWED_AXIOMS = {"propext", "Classical.choice", "Quot.sound"}
FORBIDDEN = re.compile(r"\b(sorry|admit|native_decide|bv_decide|implemented_by|unsafe)\b|^\s*axiom\s|maxHeartbeats\s+0")

sys.path.insert(0, os.path.join(VERIF, "bin"))
from props import PROPS  # noqa: E402  (per-property configuration)

ENV = dict(os.environ, CARGO_NET_OFFLINE="true")
try:
    FLOORS = {k: v for k, v in json.load(open(os.path.join(VERIF, "bin", "coverage_floors.json"))).items() if isinstance(v, dict)}
except (OSError, ValueError):
    FLOORS = {}


def sh(cmd, cwd=None, timeout=None, inp=None):
    p = subprocess.run(cmd, cwd=cwd, env=ENV, input=inp, stdout=subprocess.PIPE, stderr=subprocess.STDOUT,
                       timeout=timeout, text=True)
    return p.returncode, p.stdout


class Lock:
    def __enter__(self):
        os.makedirs(BUILD, exist_ok=True)
        self.f = open(os.path.join(BUILD, "lock"), "w")
        fcntl.flock(self.f, fcntl.LOCK_EX)
        return self

    def __exit__(self, *a):
        fcntl.flock(self.f, fcntl.LOCK_UN)
        self.f.close()


def strip_lean_comments(src):
    src = re.sub(r"/-.*?-/", lambda m: "\n" * m.group(0).count("\n"), src, flags=re.S)
    return re.sub(r"--[^\n]*", "", src)


def lean_sources():
    out = []
    for root, _dirs, files in os.walk(os.path.join(LEAN, "XotModel")):
        for f in files:
            if f.endswith(".lean"):
                out.append(os.path.join(root, f))
    out.append(os.path.join(LEAN, "Main.lean"))
    return out


def forbidden_scan():
    hits = []
    for path in lean_sources():
        src = strip_lean_comments(open(path, encoding="utf-8").read())
        for i, line in enumerate(src.split("\n"), 1):
            if FORBIDDEN.search(line):
                if path.endswith("Main.lean") and re.search(r"\bpartial def loop\b", line):
                    continue
                hits.append(f"{os.path.relpath(path, LEAN)}:{i}: {line.strip()}")
            if re.search(r"\bpartial\s+def\b", line) and not (path.endswith("Main.lean") or os.sep + "Driver" + os.sep in path):
                hits.append(f"{os.path.relpath(path, LEAN)}:{i}: {line.strip()}")
    return hits


def enclosing_decl(path, lineno):
    try:
        lines = open(path, encoding="utf-8").read().split("\n")
    except OSError:
        return None
    for i in range(min(lineno, len(lines)) - 1, -1, -1):
        m = re.match(r"\s*(?:private\s+|protected\s+)?(?:theorem|lemma|def|example|instance|abbrev)\s+(\S+)?", lines[i])
        if m:
            return m.group(1) or "example"
    return None


def regen_audit(pid):
    """Audit file = `#print axioms` for every theorem of Props/<pid>.lean (regenerated, so a
    theorem cannot be dropped from the audit)."""
    src_path = os.path.join(LEAN, "XotModel", "Props", f"{pid}.lean")
    src = strip_lean_comments(open(src_path, encoding="utf-8").read())
    names = re.findall(r"^theorem\s+(\S+)", src, flags=re.M)
    text = f"import XotModel.Props.{pid}\nopen XotModel.Props\n" + "".join(f"#print axioms {n}\n" for n in names)
    ap = os.path.join(LEAN, "XotModel", "Audit", f"{pid}.lean")
    old = open(ap).read() if os.path.exists(ap) else None
    if old != text:
        open(ap, "w").write(text)
    return names


def lake_build(pid):
    """Returns dict(ok, broken=[…], axioms={thm: [...]}, log)."""
    names = regen_audit(pid)
    t0 = time.time()
    rc, out = sh(["lake", "build", f"XotModel.Props.{pid}", f"XotModel.Audit.{pid}", "xotmodel"], cwd=LEAN, timeout=3000)
    broken = []
    for m in re.finditer(r"^error: (\S+?\.lean):(\d+):(\d+): (.*)$", out, flags=re.M):
        path, line, _col, msg = m.group(1), int(m.group(2)), m.group(3), m.group(4)
        decl = enclosing_decl(os.path.join(LEAN, path), line)
        broken.append({"file": path, "line": line, "decl": decl, "message": msg[:300]})
    axioms = {}
    for m in re.finditer(r"'XotModel\.Props\.(\S+)' (?:depends on axioms: \[([^\]]*)\]|does not depend on any axioms)", out):
        axioms[m.group(1)] = [a.strip() for a in (m.group(2) or "").split(",") if a.strip()]
    if rc != 0 and not broken:
        broken.append({"file": "?", "line": 0, "decl": None, "message": out[-600:]})
    if rc == 0 and set(axioms) != set(names):
        # replayed build: lake prints cached info lines too, but be safe
        rc2, out2 = sh(["lake", "env", "lean", os.path.join("XotModel", "Audit", f"{pid}.lean")], cwd=LEAN, timeout=3000)
        for m in re.finditer(r"'XotModel\.Props\.(\S+)' (?:depends on axioms: \[([^\]]*)\]|does not depend on any axioms)", out2):
            axioms[m.group(1)] = [a.strip() for a in (m.group(2) or "").split(",") if a.strip()]
    return {"ok": rc == 0, "broken": broken, "axioms": axioms, "theorems": names, "log": out, "wall_s": time.time() - t0}


def cargo_build():
    t0 = time.time()
    rc, out = sh(["cargo", "build", "--release", "--offline"], cwd=HARNESS, timeout=3000)
    return {"ok": rc == 0, "log": out, "wall_s": time.time() - t0}


def run_harness(args, timeout):
    p = subprocess.run([HBIN] + [str(a) for a in args], env=ENV, stdout=subprocess.PIPE, stderr=subprocess.PIPE,
                       timeout=timeout, text=True)
    return p.returncode, p.stdout, p.stderr


def run_model(requests, timeout):
    p = subprocess.run([MBIN], input="\n".join(requests) + "\n", env=ENV, stdout=subprocess.PIPE,
                       stderr=subprocess.PIPE, timeout=timeout, text=True)
    return p.returncode, p.stdout.split("\n")[:-1], p.stderr


# requests whose model-side answer is the SPECIFICATION the property names (C05: "the state the same operation
# produces on a plain ordered-tree model"), not the model of the code
SPEC_REQUESTS = ("forest specp ", "forest spec ")


def run_suite(suite, seed, count, tier, timeout=1500):
    """Run one correspondence suite. Returns dict with transcript stats and disagreements."""
    t0 = time.time()
    res = {"suite": suite, "seed": seed, "count": count, "evaluations": 0, "distinct": 0, "disagreements": [],
           "stats": {}, "samples": [], "failures": [], "error": None}
    try:
        rc, out, err = run_harness([suite, seed, count, tier], timeout)
    except subprocess.TimeoutExpired:
        res["error"] = "harness timeout"
        return res
    if rc == 3:
        # the harness itself panicked: the transcript up to that point is used, the panic is a broken tie
        m = re.search(r"^X\tharness-panic\t(.*)$", out, flags=re.M)
        res["error"] = f"harness panicked after {out.count(chr(10) + 'T' + chr(9))} lines: {m.group(1)[:300] if m else ''}"
    elif rc != 0:
        res["error"] = f"harness exit {rc}: {err[-400:]}"
        return res
    reqs, resps = [], []
    for line in out.split("\n"):
        if line.startswith("T\t"):
            _t, rq, rs = line.split("\t", 2)
            reqs.append(rq)
            resps.append(rs)
        elif line.startswith("S\t"):
            _s, k, v = line.split("\t")
            res["stats"][k] = int(v)
        elif line.startswith("F\t"):
            _f, pid, js = line.split("\t", 2)
            try:
                res["failures"].append((pid, json.loads(js)))
            except ValueError:
                res["failures"].append((pid, {"raw": js}))
    res["evaluations"] = len(reqs)
    res["distinct"] = len(set(reqs))
    if reqs:
        try:
            rc, mresps, merr = run_model(reqs, timeout)
        except subprocess.TimeoutExpired:
            res["error"] = "model timeout"
            return res
        if rc != 0 or len(mresps) != len(reqs):
            res["error"] = f"model exit {rc}, {len(mresps)} answers for {len(reqs)} requests: {merr[-300:]}"
            return res
        for i, (rq, a, b) in enumerate(zip(reqs, resps, mresps)):
            if a != b:
                if rq.startswith(SPEC_REQUESTS) and len(res.setdefault("spec_failures", [])) < 5:
                    # this request is answered on the model side by the property's own specification (the
                    # ordered-tree pair specification of C05): the implementation's result differs from it on
                    # this history -- a failing input, replayed from the start of the session
                    j = i
                    while j > 0 and reqs[j] != "forest reset":
                        j -= 1
                    hist = [r[len("forest "):] for r in reqs[j:i] if r.startswith("forest ") and not r.startswith(SPEC_REQUESTS)]
                    res["spec_failures"].append({"signature": "implementation-differs-from-the-ordered-tree-specification:" + rq.split(" ")[2],
                                                 "what": f"after `{rq.split(' ', 2)[2]}` the implementation holds `{a[:300]}`, the specification prescribes `{b[:300]}`",
                                                 "replay": {"history": hist + [rq.split(' ', 2)[2]]}})
                if len(res["disagreements"]) < 25:
                    res["disagreements"].append({"request": rq, "implementation": a, "model": b})
                res.setdefault("disagreeing_requests", []).append(rq)
                res["n_disagreements"] = res.get("n_disagreements", 0) + 1
        step = max(1, len(reqs) // 5)
        res["samples"] = [{"request": reqs[i][:400], "response": resps[i][:400]} for i in range(0, len(reqs), step)][:5]
    res["wall_s"] = time.time() - t0
    return res


def load_known():
    path = os.path.join(VERIF, "KNOWN_FINDINGS.jsonl")
    out = []
    if os.path.exists(path):
        for line in open(path, encoding="utf-8"):
            line = line.strip()
            if line and not line.startswith("#"):
                out.append(json.loads(line))
    return out


def write_replay(pid, payload):
    os.makedirs(REPLAYS, exist_ok=True)
    h = hashlib.sha1(json.dumps(payload, sort_keys=True).encode()).hexdigest()[:12]
    path = os.path.join(REPLAYS, f"{pid}-{h}.json")
    with open(path, "w", encoding="utf-8") as f:
        json.dump(payload, f, indent=1, sort_keys=True)
    return path


def check(pid, tier, seed):
    t0 = time.time()
    cfg = PROPS[pid]
    report = {"property": pid, "tier": tier, "seed": seed}
    tie_broken = []      # proof obligations / extraction / correspondence that no longer check
    failing = []         # concrete failing inputs (implementation-vs-oracle)
    with Lock():
        rc, out = sh([sys.executable, os.path.join(VERIF, "extract", "extract.py")])
        try:
            ex = json.loads(out.strip().split("\n")[-1])
        except ValueError:
            ex = {"ok": False, "errors": [out[-400:]]}
        if not ex.get("ok"):
            for e in ex.get("errors", []):
                tie_broken.append({"kind": "extract", "what": e})
        lb = lake_build(pid)
        for b in lb["broken"]:
            tie_broken.append({"kind": "proof", "what": f"{b['file']}:{b['line']} {b['decl']}: {b['message']}"})
        bad_axioms = {t: a for t, a in lb["axioms"].items() if not set(a) <= ALLOWED_AXIOMS}
        for t, a in bad_axioms.items():
            tie_broken.append({"kind": "axioms", "what": f"{t} depends on {a}"})
        missing = [t for t in lb["theorems"] if t not in lb["axioms"]] if lb["ok"] else []
        for t in missing:
            tie_broken.append({"kind": "audit", "what": f"no axiom report for {t}"})
        hits = forbidden_scan()
        for h in hits:
            tie_broken.append({"kind": "forbidden-token", "what": h})
        leanchecker = None
        if tier == "thorough" and lb["ok"]:
            rc, out = sh(["lake", "env", "leanchecker", f"XotModel.Props.{pid}"], cwd=LEAN, timeout=3000)
            leanchecker = rc == 0
            if rc != 0:
                tie_broken.append({"kind": "leanchecker", "what": out[-400:]})
        cb = cargo_build()
        if not cb["ok"]:
            tie_broken.append({"kind": "harness-build", "what": cb["log"][-800:]})
    suites = []
    if cb["ok"] and os.path.exists(MBIN):
        for suite, qn, tn in cfg["suites"]:
            n = qn if tier == "quick" else tn
            # a change that makes the real code loop must not stall the quick check for long
            r = run_suite(suite, seed, n, tier, timeout=300 if tier == "quick" else 3000)
            suites.append(r)
            if r["error"]:
                tie_broken.append({"kind": "correspondence", "what": f"suite {suite}: {r['error']}"})
            for d in r["disagreements"]:
                tie_broken.append({"kind": "correspondence", "what": f"suite {suite}", "case": d})
            for fp, fj in r["failures"]:
                if fp == pid:
                    failing.append(fj)
                elif fp == "*" and isinstance(fj, dict):
                    # a panic inside the crate that escaped the suite (harness exit 3): a failing input
                    # for the property being checked
                    failing.append(dict(fj, signature=f"{pid}:{fj.get('signature', 'crate-panics')}", suite=suite))
            if pid == "C05":
                for sf in r.get("spec_failures", []):
                    failing.append(dict(sf, signature=f"C05:{sf['signature']}", suite=suite))
            # coverage floors: a family of inputs that past seeded changes needed must still be produced
            if not r["error"]:
                for k, m in FLOORS.get(suite, {}).items():
                    if r["stats"].get(k, 0) < m:
                        tie_broken.append({"kind": "coverage", "what": f"suite {suite}: statistic {k} = {r['stats'].get(k, 0)}, below the floor {m} (bin/coverage_floors.json): the generator / oracle no longer produces this family"})
    elif cb["ok"]:
        tie_broken.append({"kind": "model-driver", "what": "xotmodel executable missing (lake build failed)"})
    # if the tie is broken, search harder on the implementation for a failing input
    if tie_broken and not failing and cb["ok"]:
        for suite, qn, tn in cfg["suites"]:
            try:
                # (bounded: a change that makes the real code loop or crawl must not stall the check)
                rc, out, _err = run_harness([suite, seed + 7919, qn * 20, "search"], 600)
            except subprocess.TimeoutExpired:
                continue
            for line in out.split("\n"):
                if line.startswith("F\t"):
                    _f, fp, js = line.split("\t", 2)
                    if fp == pid:
                        try:
                            failing.append(json.loads(js))
                        except ValueError:
                            failing.append({"raw": js})
    known = [k for k in load_known() if k.get("property") == pid and k.get("status") == "known"]
    known_sigs = {k["signature"]: k for k in known}
    # A recorded finding is a failure of the UNCHANGED code, which the model reproduces.  A failure
    # that carries a known signature but occurs on an input where implementation and model no longer
    # agree is therefore not the recorded one: it counts as new.
    dis_reqs = [rq for s in suites for rq in s.get("disagreeing_requests", [])]

    def on_disagreeing_input(f):
        rp = f.get("replay") if isinstance(f, dict) else None
        if not isinstance(rp, dict) or not dis_reqs:
            return False
        keys = [v for k, v in rp.items() if k in ("tree", "input", "text", "request") and isinstance(v, str) and len(v) >= 8]
        hist = rp.get("history")
        if isinstance(hist, list) and hist:
            keys.append(" | ".join(str(h) for h in hist))
        return any(k in rq for k in keys for rq in dis_reqs)

    new_failing = [f for f in failing if f.get("signature") not in known_sigs]
    promoted = [dict(f, promoted="known signature, but implementation and model disagree on this input")
                for f in failing if f.get("signature") in known_sigs and on_disagreeing_input(f)]
    new_failing += promoted
    seen_known = {}
    for f in failing:
        if f.get("signature") in known_sigs:
            seen_known.setdefault(f["signature"], f)
    for k in known:
        print(f"KNOWN-FINDING: property={pid} {k['signature']}: {k['what']}")
    violations = 0
    verdict_lines = []
    if new_failing:
        violations = len(new_failing)
        # smallest failing case first
        new_failing.sort(key=lambda f: len(json.dumps(f)))
        path = write_replay(pid, {"property": pid, "kind": "failing-input", "case": new_failing[0],
                                  "tie_broken": tie_broken[:10], "seed": seed, "tier": tier,
                                  "more_cases": new_failing[1:6]})
        verdict_lines.append(f"VIOLATION property={pid} replay={path}")
    elif tie_broken:
        violations = 1
        path = write_replay(pid, {"property": pid, "kind": "tie-broken", "no_longer_checks": tie_broken[:20],
                                  "seed": seed, "tier": tier})
        verdict_lines.append(f"VIOLATION property={pid} replay={path} no-failing-input-found")
    # evidence
    n_thm = len(lb["theorems"])
    discharged = len([t for t in lb["theorems"] if t in lb["axioms"] and t not in bad_axioms]) if lb["ok"] else 0
    evals = sum(s["evaluations"] for s in suites)
    distinct = sum(s["distinct"] for s in suites)
    samples = []
    for s in suites:
        samples.extend(s["samples"][:3])
    if not samples:
        samples = [{"theorem": t} for t in lb["theorems"][:3]]
    evidence = {
        "property_id": pid,
        "tier": tier,
        "seed": seed,
        "level": "proof",
        "coverage": {
            "obligations": n_thm,
            "discharged": discharged,
            "checker_cmd": f"cd lean && lake build XotModel.Props.{pid} XotModel.Audit.{pid}" + (" && lake env leanchecker XotModel.Props." + pid if tier == "thorough" else ""),
            "trusted_base": [
                "Lean 4.33.0 kernel" + (" + leanchecker replay" if leanchecker else ""),
                "axioms: " + ", ".join(sorted({a for v in lb["axioms"].values() for a in v}) or ["none"]),
                "extract/extract.py (constants read off /repo/src)",
                "correspondence check: harness/ (Rust, real xot in-process) vs lean/Main.lean driver, bin/check.py diff",
            ] + cfg.get("modelled", []),
            "theorems": {t: lb["axioms"].get(t) for t in lb["theorems"]},
            "proved_scope": cfg.get("proved_scope", ""),
            "not_proved": cfg.get("not_proved", ""),
            "generated_constants": ex.get("constants", {}) if cfg.get("show_constants") else sorted(ex.get("constants", {}).keys()),
            "evaluations": evals,
            "distinct_nontrivial": distinct,
            "rule": "correspondence cases = request lines of the suites " + ", ".join(s["suite"] for s in suites) +
                    "; distinct = distinct request lines (every request exercises the modelled function on a generated input)",
            "traces_validated_against_impl": evals,
            "disagreements_checked": sum(s.get("n_disagreements", 0) for s in suites),
            "suites": [{k: s[k] for k in ("suite", "seed", "count", "evaluations", "distinct", "stats", "error") if k in s} | {"disagreements": s.get("n_disagreements", 0), "oracle_failures": len(s["failures"])} for s in suites],
            "samples": samples,
            "oracle_failures_known": sorted(seen_known.keys()),
            "tie_broken": tie_broken[:10],
            "exhaustive": False,
        },
        "assumptions": cfg.get("assumptions", []),
        "wall_s": round(time.time() - t0, 2),
        "violations": violations,
    }
    os.makedirs(EVID, exist_ok=True)
    with open(os.path.join(EVID, f"{pid}.json"), "w", encoding="utf-8") as f:
        json.dump(evidence, f, indent=1, sort_keys=True, ensure_ascii=True)
    for line in verdict_lines:
        print(line)
    print(f"{pid} {tier}: theorems {discharged}/{n_thm}, correspondence {evals} cases "
          f"({sum(s.get('n_disagreements', 0) for s in suites)} disagreements), oracle failures new={len(new_failing)} "
          f"known={len(failing) - len(new_failing)}, {round(time.time() - t0, 1)} s")
    return 1 if violations else 0


def setup():
    with Lock():
        rc, out = sh([sys.executable, os.path.join(VERIF, "extract", "extract.py")])
        print(out.strip()[:300])
        targets = ["XotModel", "xotmodel"] + [f"XotModel.Props.{p}" for p in sorted(PROPS)]
        rc1, out = sh(["lake", "build"] + targets, cwd=LEAN, timeout=6000)
        print(out[-1500:])
        cb = cargo_build()
        print(cb["log"][-600:])
    return 0 if (rc1 == 0 and cb["ok"]) else 1


def replay(path):
    """Re-execute a recorded case on the implementation and on the model and print both."""
    payload = json.load(open(path, encoding="utf-8"))
    print(json.dumps({k: v for k, v in payload.items() if k != "more_cases"}, indent=1)[:6000])
    case = payload.get("case") or {}
    hist = (case.get("replay") or {}).get("history") or []
    rerun = (case.get("replay") or {}).get("rerun")
    if rerun:
        with Lock():
            cb = cargo_build()
        args = rerun.split(" ")[1:]
        p = subprocess.run([HBIN] + args, env=ENV, stdout=subprocess.PIPE, stderr=subprocess.PIPE, text=True, timeout=3000)
        print(f"--- rerun {rerun}: exit {p.returncode}")
        for line in p.stdout.split("\n"):
            if line.startswith("X\t") or line.startswith("F\t*"):
                print(line[:2000])
    forest = [h for h in hist if re.match(r"^(reset|cons|new|parse|xml_id|append|prepend|insert_|detach|remove|replace|unwrap|wrap|clone|any_append|append_|map_|set_|text_content_set|strip_ws|dump|inv|removed)", h)]
    if forest:
        with Lock():
            cb = cargo_build()
            sh(["lake", "build", "xotmodel"], cwd=LEAN, timeout=3000)
        if not cb["ok"]:
            print("harness does not build")
            return 1
        p = subprocess.run([HBIN, "exec-forest", "0", "0", "replay"], input="\n".join(forest) + "\n", env=ENV,
                           stdout=subprocess.PIPE, stderr=subprocess.PIPE, text=True, timeout=600)
        reqs, resps = [], []
        for line in p.stdout.split("\n"):
            if line.startswith("T\t"):
                _t, rq, rs = line.split("\t", 2)
                reqs.append(rq)
                resps.append(rs)
        _rc, mresps, _err = run_model(reqs, 600)
        print("\n--- replay: request | implementation | model")
        for rq, a, b in zip(reqs, resps, mresps):
            mark = "  " if a == b else "!!"
            print(f"{mark} {rq}\n     impl : {a}\n     model: {b}")
        for line in p.stdout.split("\n"):
            if line.startswith("F\t"):
                print(line)
    return 0


def main():
    ap = argparse.ArgumentParser()
    ap.add_argument("property", nargs="?")
    ap.add_argument("--tier", default=os.environ.get("VERIF_TIER", "quick"))
    ap.add_argument("--replay")
    ap.add_argument("--setup", action="store_true")
    a = ap.parse_args()
    if a.setup:
        return setup()
    if a.replay:
        return replay(a.replay)
    if a.property not in PROPS:
        print(f"unknown property {a.property}", file=sys.stderr)
        return 2
    tier = a.tier if a.tier in ("quick", "thorough") else "quick"
    seed = int(os.environ.get("VERIF_SEED", "1"))
    return check(a.property, tier, seed)


if __name__ == "__main__":
    sys.exit(main())
