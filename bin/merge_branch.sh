#!/bin/bash
# merge_branch.sh <branch> Cxx [Cyy…]: merge an agent branch; props entries for the given
# properties are taken from the branch's bin/props.py (old format) or bin/props/*.json.
B="$1"; shift
git add -A; git commit -qm "wip before merging $B" >/dev/null 2>&1; git merge "$B" -m "Merge $B" >/tmp/merge.log 2>&1 || true
for f in $(git diff --name-only --diff-filter=U); do
  case "$f" in
    bin/props.py) git checkout --ours bin/props.py; git add bin/props.py;;
    evidence/*|lean/XotModel/Generated.lean|lean/XotModel/Audit/*) git checkout --theirs "$f"; git add "$f";;
    *) echo "UNRESOLVED: $f";;
  esac
done
python3 - "$B" "$@" <<'PY'
import subprocess, json, sys
b=sys.argv[1]; pids=sys.argv[2:]
src=subprocess.run(["git","show",f"{b}:bin/props.py"],capture_output=True,text=True).stdout
ns={}
try:
    exec(src,ns); props=ns.get("PROPS",{})
except Exception as e:
    props={}; print("props.py of branch not executable:",e)
for pid in pids:
    if pid in props and "suites" in props[pid]:
        cfg=dict(props[pid]); cfg["suites"]=[list(s) for s in cfg["suites"]]
        json.dump(cfg,open(f"bin/props/{pid}.json","w"),indent=1); print("props",pid,"from branch props.py")
    else:
        r=subprocess.run(["git","show",f"{b}:bin/props/{pid}.json"],capture_output=True,text=True)
        if r.returncode==0:
            open(f"bin/props/{pid}.json","w").write(r.stdout); print("props",pid,"from branch json")
        else: print("NO PROPS for",pid)
PY
git status --short | grep -E "^(UU|AA|U|.U)" | head
python3 bin/clean_findings.py
