import json,subprocess,sys,difflib
f,branch=sys.argv[1],sys.argv[2]
def show(ref):
    return json.loads(subprocess.run(["git","show",f"{ref}:bin/props/{f}.json"],capture_output=True,text=True).stdout)
base=subprocess.run(["git","merge-base","HEAD",branch],capture_output=True,text=True).stdout.strip()
b,o,t=show(base),show("HEAD"),show(branch)
out=dict(o)
for k in t:
    if t[k]==b.get(k): continue
    if o.get(k)==b.get(k):
        out[k]=t[k]; print(f,"take theirs:",k); continue
    if t[k]==o.get(k): continue
    if isinstance(t[k],str) and isinstance(b.get(k),str):
        if t[k].startswith(b[k]):
            out[k]=o[k]+t[k][len(b[k]):]; print(f,"append suffix:",k); continue
        sm=difflib.SequenceMatcher(None,b[k],t[k],autojunk=False)
        s=o[k]; ok=True
        for tag,i1,i2,j1,j2 in reversed(sm.get_opcodes()):
            if tag=='equal': continue
            old=b[k][i1:i2]; new=t[k][j1:j2]; ctx=b[k][max(0,i1-60):i1]
            pos=s.find(ctx+old)
            if pos<0 and i1==len(b[k]):
                s=s+new; continue
            if pos<0: ok=False; print(f,"cannot place edit in",k,repr(old[:60]),'=>',repr(new[:80])); continue
            s=s[:pos+len(ctx)]+new+s[pos+len(ctx)+len(old):]
        out[k]=s; print(f,"patched:",k,ok)
    elif isinstance(t[k],list) and isinstance(o.get(k),list):
        add=[x for x in t[k] if x not in b.get(k,[]) and x not in o[k]]
        out[k]=o[k]+add; print(f,"list merged:",k,len(add))
    else:
        print(f,"CONFLICT unresolved:",k)
json.dump(out,open(f"bin/props/{f}.json","w"),indent=1)
