#!/usr/bin/env python3
"""prepare.py Cxx [Cyy…]: create a scratch worktree of /repo under /tmp/seed/<id> and the prompt
file /tmp/seed/<id>.prompt.txt for an independent sub-agent (property text only)."""
import json, subprocess, sys, os
kit = os.path.dirname(os.path.abspath(__file__))
tmpl = open(os.path.join(kit, "PROMPT.txt")).read()
os.makedirs("/tmp/seed", exist_ok=True)
for l in open("/verif/properties.jsonl"):
    p = json.loads(l)
    if p["id"] in sys.argv[1:]:
        wt = f"/tmp/seed/{p['id']}"
        if not os.path.isdir(wt):
            subprocess.run(["git", "-C", "/repo", "worktree", "add", "-q", "--detach", wt, "HEAD"], check=True)
        txt = tmpl.replace("WORKTREE", wt).replace("NAME", p["id"])
        txt += f"{p['id']} — {p['title']}\n\nStatement: {p['statement']}\n\nQuantified over: {p['quantifier']['text']}\n\nRelevant source files: {', '.join(p['anchors']['files'])}\n"
        open(f"/tmp/seed/{p['id']}.prompt.txt", "w").write(txt)
        print("prepared", p["id"])
