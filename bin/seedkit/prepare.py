#!/usr/bin/env python3
"""prepare.py Cxx[suffix] …: create a scratch worktree of /repo under /tmp/seed/<name> and the
prompt file /tmp/seed/<name>.prompt.txt for an independent sub-agent (property text only).
With a suffix (C04b) the prompt names the earlier seeded changes for that property so that the
new one is different."""
import json, subprocess, sys, os, re, glob
kit = os.path.dirname(os.path.abspath(__file__))
tmpl = open(os.path.join(kit, "PROMPT.txt")).read()
os.makedirs("/tmp/seed", exist_ok=True)
props = {json.loads(l)["id"]: json.loads(l) for l in open("/verif/properties.jsonl")}
for name in sys.argv[1:]:
    pid = re.match(r"C\d+", name).group(0)
    p = props[pid]
    wt = f"/tmp/seed/{name}"
    if not os.path.isdir(wt):
        subprocess.run(["git", "-C", "/repo", "worktree", "add", "-q", "--detach", wt, "HEAD"], check=True)
    txt = tmpl.replace("WORKTREE", wt).replace("NAME", name)
    txt += f"{pid} — {p['title']}\n\nStatement: {p['statement']}\n\nQuantified over: {p['quantifier']['text']}\n\nRelevant source files: {', '.join(p['anchors']['files'])}\n"
    earlier = []
    for m in sorted(glob.glob(f"/verif/seeded/{pid}*/meta.json")):
        try:
            earlier.append(json.load(open(m)).get("summary", ""))
        except Exception:
            pass
    if name != pid and earlier:
        txt += "\nEarlier seeded regressions for this property (choose a DIFFERENT function / mechanism, ideally a different source file and a different clause of the property):\n" + "".join(f"  - {e}\n" for e in earlier)
    open(f"/tmp/seed/{name}.prompt.txt", "w").write(txt)
    print("prepared", name)
